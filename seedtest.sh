#!/bin/bash
# seedtest.sh <mutant-dir> [properties...]
# Confirms a seeded change (patch.diff + demo_test.go) in a scratch worktree of /repo's HEAD
# and runs the quick checks against that scratch copy (never against /repo itself).
# Prints one line per property: CAUGHT / missed.
set -u
export GOFLAGS=-mod=mod GOPROXY=off GOSUMDB=off GOTOOLCHAIN=local
HERE="$(cd "$(dirname "$0")" && pwd)"
M="$(cd "$1" && pwd)"; shift
PROPS="${*:-C01 C02 C03 C04 C05 C06 C07 C08 C09 C10 C11 C12 C13 C14 C15 C16 C17 C18 C19}"
TAG="$(echo "$M" | tr '/' '_')"
WT="/tmp/mut$TAG"; OUT="/tmp/mutout$TAG"
rm -rf "$WT" "$OUT"; git -C /repo worktree prune
git -C /repo worktree add --detach "$WT" HEAD >/dev/null 2>&1 || { echo "worktree failed"; exit 2; }
cleanup() { git -C /repo worktree remove --force "$WT" >/dev/null 2>&1; rm -rf "$WT"; }
trap cleanup EXIT
cd "$WT"
if ! git apply "$M/patch.diff" 2>/tmp/apply$TAG.err; then
  if ! git apply -3 "$M/patch.diff" 2>>/tmp/apply$TAG.err; then echo "CONFIRM: patch does not apply"; cat /tmp/apply$TAG.err | head -5; exit 3; fi
fi
go build ./... >/dev/null 2>&1 || { echo "CONFIRM: does not build"; exit 3; }
if go test -count=1 ./... >/tmp/t$TAG.log 2>&1; then echo "CONFIRM: existing tests pass with the change"; else echo "CONFIRM: existing tests FAIL with the change"; tail -5 /tmp/t$TAG.log; exit 3; fi
DEMO=$(ls "$M"/*_test.go 2>/dev/null | head -1)
DD=$(grep -m1 '^demo-dir:' "$M/notes.md" 2>/dev/null | awk '{print $2}'); DD="${DD:-cmd/calc}"
TAGS=""; if [ -n "$DEMO" ] && grep -q "go:build verif" "$DEMO"; then TAGS="-tags verif"; fi
if [ -n "$DEMO" ]; then
  cp "$DEMO" $DD/zz_demo_test.go
  if timeout 300 go test $TAGS -count=1 ./$DD/ >/tmp/d$TAG.log 2>&1; then echo "CONFIRM: demo PASSES with the change (useless)"; else echo "CONFIRM: demo fails with the change"; fi
  git apply -R "$M/patch.diff" 2>/dev/null || { cp $DD/zz_demo_test.go /tmp/zz$TAG.go; git checkout -- . ; cp /tmp/zz$TAG.go $DD/zz_demo_test.go; }
  if timeout 300 go test $TAGS -count=1 ./$DD/ >/tmp/d2$TAG.log 2>&1; then echo "CONFIRM: demo passes without the change"; else echo "CONFIRM: demo FAILS without the change"; tail -5 /tmp/d2$TAG.log; fi
  rm -f $DD/zz_demo_test.go
  git checkout -- .
  git apply "$M/patch.diff" 2>/dev/null || git apply -3 "$M/patch.diff"
fi
mkdir -p "$OUT"
for p in $PROPS; do
  r=$(cd "$HERE" && VERIF_REPO="$WT" VERIF_OUT="$OUT" timeout 1500 ./check $p quick 2>&1)
  rc=$?
  if echo "$r" | grep -q "^VIOLATION"; then echo "$p CAUGHT ($(echo "$r" | grep 'violations by' | cut -c1-150))"; elif [ $rc -ne 0 ]; then echo "$p rc=$rc $(echo "$r" | tail -1 | cut -c1-150)"; else echo "$p missed"; fi
done
rm -rf "$OUT"
