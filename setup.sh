#!/bin/bash
# MANIFEST.setup_cmd: build the harness once from files on disk (warms the go build cache).
set -e
cd "$(dirname "$0")"
export GOFLAGS=-mod=mod GOPROXY=off GOSUMDB=off GOTOOLCHAIN=local
mkdir -p bin work evidence replays
cp /repo/go.sum harness/go.sum
(cd harness && go build -tags verif -o ../bin/vcheck.setup ./cmd/vcheck && go vet -tags verif ./... )
rm -f bin/vcheck.setup
echo setup ok
