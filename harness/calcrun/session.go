package calcrun

import (
	"fmt"
	"io"
	"os"
	"runtime"
	"sort"
	"strings"

	"github.com/paulsonkoly/calc/builtin"
	"github.com/paulsonkoly/calc/lexer"
	"github.com/paulsonkoly/calc/memory"
	"github.com/paulsonkoly/calc/parser"
	"github.com/paulsonkoly/calc/types/bytecode"
	"github.com/paulsonkoly/calc/types/compresult"
	"github.com/paulsonkoly/calc/types/dbginfo"
	"github.com/paulsonkoly/calc/types/node"
	"github.com/paulsonkoly/calc/types/value"
	"github.com/paulsonkoly/calc/vm"

	"verif/val"
)

// ErrMarker is what the VM prints in front of a runtime error report.
const ErrMarker = "RUNTIME ERROR : "

// MachState is the machine state at a statement boundary.
type MachState struct {
	SP, FPLen, Closures, Contexts, StackLen, MainIP, CS, DS int
}

// Residue is the part of the state that must return to its value.
func (m MachState) Residue() [4]int { return [4]int{m.SP, m.FPLen, m.Closures, m.Contexts} }

// ParseErr is a front-end error.
type ParseErr struct {
	Msg      string
	From, To int
}

// PanicInfo describes a recovered panic.
type PanicInfo struct {
	Msg   string
	Site  string // first frame inside github.com/paulsonkoly/calc
	Op    string // opcode being dispatched, if the VM was running
	Stack string
}

// StmtObs is what one top-level statement did.
type StmtObs struct {
	Src                                string
	Parse                              *ParseErr
	Value                              val.Value
	Err                                string // error class ("" = none)
	ErrText                            string
	Out                                string // program output (before the error report)
	Report                             string // runtime error report text, marker included
	Panic                              *PanicInfo
	StepLimit                          bool
	Hang                               string // front-end progress bound tripped
	Steps, Forks                       int
	LastIP                             int
	LastInstr                          bytecode.Type
	LastDepth                          int
	Before                             MachState
	After                              MachState
	MaxSPMain, MaxSPChild, MaxStackLen int
	BackEdges, MaxCtxBackEdge          int
	Grow, CloneNew, CloneReuse         int
	Compiled                           bool // code generation completed
}

// Session is one interpreter instance, set up exactly as cmd/calc does.
type Session struct {
	M    *memory.Type
	CR   compresult.Type
	VM   *vm.Type
	Dead bool // a panic left the machine in an undefined state
	// StepLimit is the VM step limit per statement (0 = none).
	StepLimit int
	// ForkLimit bounds the iterator contexts one statement may fork (0 = none); exceeding it is reported as StepLimit.
	ForkLimit int
}

func NewSession() *Session {
	m := memory.New()
	cs := []bytecode.Type{}
	ds := []value.Type{}
	dbg := make(dbginfo.Type)
	cr := compresult.Type{CS: &cs, DS: &ds, Dbg: &dbg}
	builtin.Load(cr)
	return &Session{M: m, CR: cr, VM: vm.New(m, cr), StepLimit: 2000000}
}

// State reads the machine state through the verif accessors.
func (s *Session) State() MachState {
	st := s.VM.VerifMainMemory().VerifState()
	return MachState{SP: st.SP, FPLen: st.FPLen, Closures: st.Closures, Contexts: s.VM.VerifLiveContexts(), StackLen: st.StackLen,
		MainIP: s.VM.VerifMainIP(), CS: len(*s.CR.CS), DS: len(*s.CR.DS)}
}

// Globals renders every global binding (type-tagged).
func (s *Session) Globals() map[string]string {
	m := s.VM.VerifMainMemory()
	r := map[string]string{}
	for _, n := range m.VerifGlobalNames() {
		v, _ := m.VerifGlobal(n)
		r[n] = val.Debug(FromCalc(v))
	}
	return r
}

// GlobalNames returns the sorted names of the globals.
func (s *Session) GlobalNames() []string {
	n := s.VM.VerifMainMemory().VerifGlobalNames()
	sort.Strings(n)
	return n
}

// ---- stdout / stdin redirection -------------------------------------------

var capFile *os.File

func capInit() {
	if capFile == nil {
		dir := os.Getenv("VERIF_DIR")
		if dir == "" {
			dir = os.TempDir()
		} else {
			dir += "/work"
			os.MkdirAll(dir, 0o755)
		}
		f, err := os.CreateTemp(dir, "stdout-*")
		if err != nil {
			panic(err)
		}
		os.Remove(f.Name())
		capFile = f
	}
}

// Capture runs f with os.Stdout redirected to an unlinked file and returns
// what was written. A panic in f passes through after stdout is restored; the
// text written so far is stored in *partial if non-nil.
func Capture(f func()) (out string) {
	capInit()
	capFile.Truncate(0)
	capFile.Seek(0, 0)
	old := os.Stdout
	os.Stdout = capFile
	defer func() {
		os.Stdout = old
		capFile.Seek(0, 0)
		b, _ := io.ReadAll(capFile)
		out = string(b)
		if r := recover(); r != nil {
			lastCaptured = out
			panic(r)
		}
	}()
	f()
	return
}

var lastCaptured string

var stdinFile *os.File

// SetStdin makes text the process's standard input (a regular file).
func SetStdin(text string) {
	dir := os.Getenv("VERIF_DIR")
	if dir == "" {
		dir = os.TempDir()
	} else {
		dir += "/work"
	}
	f, err := os.CreateTemp(dir, "stdin-*")
	if err != nil {
		panic(err)
	}
	os.Remove(f.Name())
	f.WriteString(text)
	f.Seek(0, 0)
	if stdinFile != nil {
		stdinFile.Close()
	}
	stdinFile = f
	os.Stdin = f
}

// ---- execution --------------------------------------------------------------

func calcSite(stack string) string {
	lines := strings.Split(stack, "\n")
	for _, l := range lines {
		if strings.HasPrefix(l, "github.com/paulsonkoly/calc/") {
			l = strings.TrimPrefix(l, "github.com/paulsonkoly/calc/")
			if i := strings.LastIndex(l, "("); i > 0 {
				l = l[:i]
			}
			if strings.Contains(l, "verif") || strings.Contains(l, "Verif") {
				continue
			}
			return l
		}
	}
	return ""
}

func recovered(r any) (*PanicInfo, bool, string) {
	if h, ok := r.(vm.VerifStepLimitHit); ok {
		_ = h
		return nil, true, ""
	}
	if h, ok := r.(lexer.VerifLexLimitHit); ok {
		return nil, false, fmt.Sprintf("%s exceeded bound (%d)", h.What, h.Count)
	}
	buf := make([]byte, 16384)
	n := runtime.Stack(buf, false)
	st := string(buf[:n])
	return &PanicInfo{Msg: fmt.Sprint(r), Site: calcSite(st), Stack: st}, false, ""
}

// Parse runs the real parser under the progress bounds.
func Parse(src string) (ast []node.Type, perr *ParseErr, pan *PanicInfo, hang string, maxIter, maxNext int) {
	lexer.VerifLexReset()
	lexer.VerifLex.IterLimit = 4*len(src) + 64
	lexer.VerifLex.TLNextLimit = 1000 * (len(src) + 16)
	defer func() {
		maxIter, maxNext = lexer.VerifLex.Iter, lexer.VerifLex.TLNext
		lexer.VerifLex.IterLimit, lexer.VerifLex.TLNextLimit = 0, 0
		if r := recover(); r != nil {
			pan, _, hang = recovered(r)
		}
	}()
	t, err := parser.Parse(src)
	if err != nil {
		return nil, &ParseErr{Msg: err.Message(), From: err.From(), To: err.To()}, nil, "", 0, 0
	}
	return t, nil, nil, "", 0, 0
}

// Exec parses src and executes its top-level statements one by one, the way
// processInput and calc_test.go do (STRewrite, ByteCode|ByteCodeNoStck, Run).
func (s *Session) Exec(src string, doOut bool) []StmtObs {
	if s.Dead {
		return nil
	}
	ast, perr, pan, hang, _, _ := Parse(src)
	if perr != nil || pan != nil || hang != "" {
		st := s.State()
		if pan != nil || hang != "" {
			s.Dead = true
		}
		return []StmtObs{{Src: src, Parse: perr, Panic: pan, Hang: hang, Before: st, After: st, LastIP: -1}}
	}
	var obs []StmtObs
	for _, n := range ast {
		o := s.ExecNode(n, doOut)
		o.Src = src
		obs = append(obs, o)
		if s.Dead {
			break
		}
	}
	return obs
}

// ExecNode compiles and runs one parsed top-level statement.
func (s *Session) ExecNode(n node.Type, doOut bool) (o StmtObs) {
	o.Before = s.State()
	o.LastIP = -1
	vm.VerifReset()
	vm.VerifMon.StepLimit = s.StepLimit
	vm.VerifMon.ForkLimit = s.ForkLimit
	memory.VerifCnt = memory.VerifCounters{}
	finish := func() {
		o.Steps = vm.VerifMon.Steps
		o.Forks = vm.VerifMon.Forks
		o.LastIP = vm.VerifMon.LastIP
		o.LastInstr = vm.VerifMon.LastInstr
		o.LastDepth = vm.VerifMon.LastCtxDepth
		o.MaxSPMain, o.MaxSPChild, o.MaxStackLen = vm.VerifMon.MaxSPMain, vm.VerifMon.MaxSPChild, vm.VerifMon.MaxStackLen
		o.BackEdges, o.MaxCtxBackEdge = vm.VerifMon.BackEdges, vm.VerifMon.MaxCtxAtBackEdge
		o.Grow, o.CloneNew, o.CloneReuse = memory.VerifCnt.Grow, memory.VerifCnt.CloneNew, memory.VerifCnt.CloneReuse
		vm.VerifMon.StepLimit = 0
		vm.VerifMon.ForkLimit = 0
	}
	var v value.Type
	var err error
	func() {
		defer func() {
			if r := recover(); r != nil {
				pi, lim, hang := recovered(r)
				o.Panic, o.StepLimit, o.Hang = pi, lim, hang
				if pi != nil && o.Compiled {
					pi.Op = vm.VerifMon.LastInstr.OpCode().String()
				}
				s.Dead = true
				text := lastCaptured
				o.Out, o.Report = splitReport(text)
			}
		}()
		text := Capture(func() {
			n = n.STRewrite(node.SymTbl{})
			if doOut {
				node.ByteCode(n, s.CR)
			} else {
				node.ByteCodeNoStck(n, s.CR)
			}
			o.Compiled = true
			v, err = s.VM.Run(doOut)
		})
		o.Out, o.Report = splitReport(text)
	}()
	finish()
	if s.Dead {
		o.After = o.Before
		return o
	}
	o.After = s.State()
	o.Err = ErrClass(err)
	if err != nil {
		o.ErrText = err.Error()
	} else if doOut {
		o.Value = FromCalc(v)
	}
	return o
}

func splitReport(text string) (out, report string) {
	if i := strings.Index(text, ErrMarker); i >= 0 {
		return text[:i], text[i:]
	}
	return text, ""
}

// Shapes returns the executed instruction shapes recorded so far in this
// process as "OPCODE/src2/src1/src0" strings, and clears the set.
func Shapes() []string {
	kinds := [...]string{"-", "IMM", "GBL", "LCL", "CLS", "STCK", "TMP", "DS"}
	var r []string
	for i, seen := range vm.VerifMon.Shapes {
		if !seen {
			continue
		}
		vm.VerifMon.Shapes[i] = false
		op := bytecode.OpCode(i >> 9)
		r = append(r, fmt.Sprintf("%v/%s/%s/%s", op, kinds[(i>>6)&7], kinds[(i>>3)&7], kinds[i&7]))
	}
	return r
}
