package calcrun

import (
	"bytes"
	"os"
	"os/exec"
	"syscall"
	"time"
)

// ProcResult is what one run of the real cmd/calc binary did.
type ProcResult struct {
	Stdout, Stderr string
	Exit           int
	TimedOut       bool
	StartErr       string
}

// CalcBinary is the freshly built cmd/calc (path handed over by ./check).
func CalcBinary() string { return os.Getenv("VERIF_CALC_BIN") }

// RunCalc runs the binary with args; stdin may be nil (empty), a byte slice
// (delivered through a pipe) or a path prefixed with "@" (opened as a file).
func RunCalc(bin string, args []string, stdin []byte, stdinFile string, timeout time.Duration, wrapper ...string) ProcResult {
	var res ProcResult
	argv := append([]string{}, wrapper...)
	argv = append(argv, bin)
	argv = append(argv, args...)
	cmd := exec.Command(argv[0], argv[1:]...)
	var out, errb bytes.Buffer
	cmd.Stdout, cmd.Stderr = &out, &errb
	cmd.Env = append(os.Environ(), "GOTRACEBACK=single", "TERM=dumb")
	switch {
	case stdinFile != "":
		f, err := os.Open(stdinFile)
		if err != nil {
			res.StartErr = err.Error()
			return res
		}
		defer f.Close()
		cmd.Stdin = f
	case stdin != nil:
		cmd.Stdin = bytes.NewReader(stdin)
	}
	cmd.SysProcAttr = &syscall.SysProcAttr{Setpgid: true, Pdeathsig: syscall.SIGKILL}
	if err := cmd.Start(); err != nil {
		res.StartErr = err.Error()
		return res
	}
	done := make(chan error, 1)
	go func() { done <- cmd.Wait() }()
	var err error
	select {
	case err = <-done:
	case <-time.After(timeout):
		res.TimedOut = true
		syscall.Kill(-cmd.Process.Pid, syscall.SIGKILL)
		err = <-done
	}
	res.Stdout, res.Stderr = out.String(), errb.String()
	if err != nil {
		res.Exit = -1
		if ee, ok := err.(*exec.ExitError); ok {
			res.Exit = ee.ExitCode()
		}
	}
	return res
}
