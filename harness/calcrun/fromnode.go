package calcrun

import (
	"fmt"

	"github.com/paulsonkoly/calc/types/node"

	"verif/ast"
)

// FromNode maps the parser's result to the harness tree (the only place the
// two tree types meet).
func FromNode(n node.Type) ast.Node {
	list := func(l node.List) []ast.Node {
		r := make([]ast.Node, len(l.Elems))
		for i, e := range l.Elems {
			r[i] = FromNode(e)
		}
		return r
	}
	names := func(l node.List) []string {
		r := make([]string, len(l.Elems))
		for i, e := range l.Elems {
			if nm, ok := e.(node.Namer); ok {
				r[i] = nm.Name()
			} else {
				r[i] = fmt.Sprintf("<%T>", e)
			}
		}
		return r
	}
	switch x := n.(type) {
	case node.Int:
		return ast.IntLit{V: int64(x)}
	case node.Float:
		return ast.FloatLit{V: float64(x)}
	case node.Bool:
		return ast.BoolLit{V: bool(x)}
	case node.String:
		return ast.StrLit{V: string(x)}
	case node.Name:
		return ast.Name{N: string(x)}
	case node.UnOp:
		return ast.Unary{Op: x.Op, X: FromNode(x.Target)}
	case node.BinOp:
		return ast.Binary{Op: x.Op, L: FromNode(x.Left), R: FromNode(x.Right)}
	case node.IndexAt:
		return ast.Index{X: FromNode(x.Ary), I: FromNode(x.At)}
	case node.IndexFromTo:
		return ast.Slice{X: FromNode(x.Ary), I: FromNode(x.From), J: FromNode(x.To)}
	case node.List:
		return ast.ArrayLit{Elems: list(x)}
	case node.Call:
		nm := fmt.Sprintf("<%T>", x.Name)
		if n, ok := x.Name.(node.Namer); ok {
			nm = n.Name()
		}
		return ast.Call{Fn: nm, Args: list(x.Arguments)}
	case node.Function:
		return ast.FuncLit{Params: names(x.Parameters), Body: FromNode(x.Body)}
	case node.Assign:
		nm := fmt.Sprintf("<%T>", x.VarRef)
		if n, ok := x.VarRef.(node.Namer); ok {
			nm = n.Name()
		}
		return ast.Assign{Name: nm, Value: FromNode(x.Value)}
	case node.If:
		return ast.If{Cond: FromNode(x.Condition), Then: FromNode(x.TrueCase)}
	case node.IfElse:
		return ast.If{Cond: FromNode(x.Condition), Then: FromNode(x.TrueCase), Else: FromNode(x.FalseCase)}
	case node.While:
		return ast.While{Cond: FromNode(x.Condition), Body: FromNode(x.Body)}
	case node.For:
		return ast.For{Vars: names(x.VarRefs), Iters: list(x.Iterators), Body: FromNode(x.Body)}
	case node.Return:
		return ast.Return{X: FromNode(x.Target)}
	case node.Yield:
		return ast.Yield{X: FromNode(x.Target)}
	case node.Block:
		r := make([]ast.Node, len(x.Body))
		for i, e := range x.Body {
			r[i] = FromNode(e)
		}
		return ast.Block{Stmts: r}
	}
	return ast.Name{N: fmt.Sprintf("<unmapped %T>", n)}
}
