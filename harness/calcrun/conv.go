// Package calcrun executes the real calc code (linked from /repo with the
// verif build tag) and turns what it does into harness-side observations.
package calcrun

import (
	"errors"

	"github.com/paulsonkoly/calc/types/value"
	"github.com/paulsonkoly/calc/vm"

	"verif/val"
)

// ToCalc builds a calc value from a harness value through calc's exported
// constructors.
func ToCalc(v val.Value) value.Type {
	switch v.K {
	case val.Nil:
		return value.Nil
	case val.Int:
		return value.NewInt(int(v.I))
	case val.Float:
		return value.NewFloat(v.F)
	case val.Bool:
		return value.NewBool(v.B)
	case val.Str:
		return value.NewString(v.S)
	case val.Arr:
		a := make([]value.Type, len(v.A))
		for i, e := range v.A {
			a[i] = ToCalc(e)
		}
		return value.NewArray(a)
	case val.Fun:
		return value.NewFunction(0, nil, 0, 0)
	}
	panic("ToCalc")
}

// FromCalc reads a calc value structurally through the exported accessors
// (never through String/Display: 1 and 1.0 print alike).
func FromCalc(v value.Type) val.Value {
	if v.IsNil() {
		return val.NilV
	}
	if i, ok := v.ToInt(); ok {
		return val.IntV(int64(i))
	}
	if b, ok := v.ToBool(); ok {
		return val.BoolV(b)
	}
	if s, ok := v.ToString(); ok {
		return val.StrV(s)
	}
	if a, ok := v.ToArray(); ok {
		r := make([]val.Value, len(a))
		for i, e := range a {
			r[i] = FromCalc(e)
		}
		return val.ArrV(r)
	}
	if _, ok := v.ToFunction(); ok {
		return val.FunV(nil)
	}
	if f, ok := v.VerifFloat(); ok {
		return val.FloatV(f)
	}
	panic("FromCalc: value of kind " + v.VerifKind())
}

// ErrClass maps a calc runtime error to the harness error class.
func ErrClass(err error) string {
	switch {
	case err == nil:
		return val.ENone
	case errors.Is(err, value.ErrNil):
		return val.ENil
	case errors.Is(err, value.ErrType):
		return val.EType
	case errors.Is(err, value.ErrZeroDiv):
		return val.EZeroDiv
	case errors.Is(err, value.ErrIndex):
		return val.EIndex
	case errors.Is(err, vm.ErrArity):
		return val.EArity
	case errors.Is(err, vm.ErrConversion):
		return val.EConversion
	}
	if len(err.Error()) >= 10 && err.Error()[:10] == "read error" {
		return val.ERead
	}
	return "other:" + err.Error()
}
