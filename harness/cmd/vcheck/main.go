// Command vcheck is driver, worker and replayer of the calc checks.
package main

import (
	"encoding/json"
	"fmt"
	"os"
	"runtime"
	"strconv"

	"verif/core"
	"verif/props"
)

func usage() {
	fmt.Fprintln(os.Stderr, "usage: vcheck drive <Cxx> [quick|thorough] [--only family] | vcheck work ... | vcheck replay <file>")
	os.Exit(2)
}

func main() {
	if len(os.Args) < 3 {
		usage()
	}
	verifDir := os.Getenv("VERIF_DIR")
	if verifDir == "" {
		verifDir = "/verif"
	}
	switch os.Args[1] {
	case "drive":
		p := props.Get(os.Args[2])
		if p == nil {
			fmt.Fprintf(os.Stderr, "unknown property %s\n", os.Args[2])
			os.Exit(2)
		}
		tier := os.Getenv("VERIF_TIER")
		only := ""
		args := os.Args[3:]
		for i := 0; i < len(args); i++ {
			switch args[i] {
			case "quick", "thorough":
				tier = args[i]
			case "--only":
				i++
				only = args[i]
			}
		}
		if tier != "thorough" {
			tier = "quick"
		}
		seed := uint64(1)
		if s := os.Getenv("VERIF_SEED"); s != "" {
			if v, err := strconv.ParseInt(s, 10, 64); err == nil {
				seed = uint64(v)
			}
		}
		self, _ := os.Executable()
		par := runtime.NumCPU()
		if v, err := strconv.Atoi(os.Getenv("VERIF_PAR")); err == nil && v > 0 {
			par = v
		}
		os.Setenv("VERIF_DIR", verifDir)
		os.Exit(core.Drive(p, core.DriveOpts{Tier: tier, Seed: seed, Self: self, VerifDir: verifDir, Par: par, Only: only}))
	case "work":
		if len(os.Args) != 9 {
			usage()
		}
		p := props.Get(os.Args[2])
		if p == nil {
			os.Exit(2)
		}
		var fam *core.Family
		for i := range p.Families {
			if p.Families[i].Name == os.Args[3] {
				fam = &p.Families[i]
			}
		}
		if fam == nil {
			fmt.Fprintln(os.Stderr, "unknown family")
			os.Exit(2)
		}
		seed, _ := strconv.ParseUint(os.Args[4], 10, 64)
		lo, _ := strconv.Atoi(os.Args[6])
		hi, _ := strconv.Atoi(os.Args[7])
		if err := core.Work(p, fam, &core.Ctx{Seed: seed, Tier: os.Args[5]}, lo, hi, os.Args[8]); err != nil {
			fmt.Fprintln(os.Stderr, err)
			os.Exit(3)
		}
	case "run":
		props.DebugRun(os.Args[2], len(os.Args) > 3 && os.Args[3] == "repl")
	case "replay":
		b, err := os.ReadFile(os.Args[2])
		if err != nil {
			fmt.Fprintln(os.Stderr, err)
			os.Exit(2)
		}
		var v core.ViolRec
		if err := json.Unmarshal(b, &v); err != nil {
			fmt.Fprintln(os.Stderr, err)
			os.Exit(2)
		}
		p := props.Get(v.Property)
		if p == nil {
			os.Exit(2)
		}
		for i := range p.Families {
			if p.Families[i].Name == v.Family {
				r := p.Families[i].Run(&core.Ctx{Seed: v.Seed, Tier: v.Tier, Replay: true}, v.Idx)
				out, _ := json.MarshalIndent(r, "", " ")
				fmt.Println(string(out))
				if r.Verdict == core.Violated {
					fmt.Printf("VIOLATION property=%s replay=%s\n", v.Property, os.Args[2])
					os.Exit(1)
				}
				os.Exit(0)
			}
		}
		os.Exit(2)
	default:
		usage()
	}
}
