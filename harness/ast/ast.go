// Package ast is the harness's own syntax tree for calc programs and a printer
// that writes a tree as source text using only the documented grammar (README
// "Language", operator tables, BNF). It never imports calc.
package ast

import (
	"fmt"
	"strconv"
	"strings"
)

type Node interface{}

type (
	IntLit   struct{ V int64 } // non-negative; negative numbers are Unary "-"
	FloatLit struct{ V float64 }
	BoolLit  struct{ V bool }
	StrLit   struct{ V string }
	Name     struct{ N string }
	Unary    struct {
		Op string // - # ! ~
		X  Node
	}
	Binary struct {
		Op   string
		L, R Node
	}
	Index    struct{ X, I Node }
	Slice    struct{ X, I, J Node }
	ArrayLit struct{ Elems []Node }
	Call     struct {
		Fn   string
		Args []Node
	}
	FuncLit struct {
		Params []string
		Body   Node
	}
	Assign struct {
		Name  string
		Value Node // an expression
	}
	If struct {
		Cond, Then, Else Node // Else nil for the one-armed form
	}
	While struct{ Cond, Body Node }
	For   struct {
		Vars  []string
		Iters []Node
		Body  Node
	}
	Return struct{ X Node }
	Yield  struct{ X Node }
	Block  struct{ Stmts []Node } // two or more statements
)

// Level is the binary precedence level of an operator, 0 (lowest) .. 4.
func Level(op string) int {
	switch op {
	case "&&", "||":
		return 0
	case "<", ">", "<=", ">=", "==", "!=":
		return 1
	case "&", "|":
		return 2
	case "+", "-":
		return 3
	case "*", "/", "%", "<<", ">>":
		return 4
	}
	panic("ast.Level: " + op)
}

var BinaryOps = []string{"&&", "||", "<", ">", "<=", ">=", "==", "!=", "&", "|", "+", "-", "*", "/", "%", "<<", ">>"}
var UnaryOps = []string{"-", "#", "!", "~"}

// IsExpr tells whether n can stand where the grammar wants an expression.
func IsExpr(n Node) bool {
	switch n.(type) {
	case IntLit, FloatLit, BoolLit, StrLit, Name, Unary, Binary, Index, Slice, ArrayLit, Call, FuncLit:
		return true
	}
	return false
}

// Sexp is a canonical, unambiguous rendering used to compare trees.
func Sexp(n Node) string {
	var sb strings.Builder
	sexp(&sb, n)
	return sb.String()
}

func sexp(sb *strings.Builder, n Node) {
	list := func(tag string, xs ...Node) {
		sb.WriteString("(" + tag)
		for _, x := range xs {
			sb.WriteByte(' ')
			sexp(sb, x)
		}
		sb.WriteByte(')')
	}
	switch x := n.(type) {
	case nil:
		sb.WriteString("_")
	case IntLit:
		fmt.Fprintf(sb, "%d", x.V)
	case FloatLit:
		fmt.Fprintf(sb, "%sf", strconv.FormatFloat(x.V, 'g', -1, 64))
	case BoolLit:
		fmt.Fprintf(sb, "%v", x.V)
	case StrLit:
		sb.WriteString(strconv.Quote(x.V))
	case Name:
		sb.WriteString(x.N)
	case Unary:
		list("u"+x.Op, x.X)
	case Binary:
		list(x.Op, x.L, x.R)
	case Index:
		list("at", x.X, x.I)
	case Slice:
		list("slice", x.X, x.I, x.J)
	case ArrayLit:
		list("arr", x.Elems...)
	case Call:
		list("call:"+x.Fn, x.Args...)
	case FuncLit:
		list("fn["+strings.Join(x.Params, ",")+"]", x.Body)
	case Assign:
		list("set:"+x.Name, x.Value)
	case If:
		if x.Else == nil {
			list("if", x.Cond, x.Then)
		} else {
			list("ifelse", x.Cond, x.Then, x.Else)
		}
	case While:
		list("while", x.Cond, x.Body)
	case For:
		list("for["+strings.Join(x.Vars, ",")+"]", append(append([]Node{}, x.Iters...), x.Body)...)
	case Return:
		list("return", x.X)
	case Yield:
		list("yield", x.X)
	case Block:
		list("block", x.Stmts...)
	default:
		panic(fmt.Sprintf("ast.Sexp: %T", n))
	}
}

// Walk calls f on n and every descendant (pre-order). f returning false
// prunes the subtree.
func Walk(n Node, f func(Node) bool) {
	if n == nil || !f(n) {
		return
	}
	switch x := n.(type) {
	case Unary:
		Walk(x.X, f)
	case Binary:
		Walk(x.L, f)
		Walk(x.R, f)
	case Index:
		Walk(x.X, f)
		Walk(x.I, f)
	case Slice:
		Walk(x.X, f)
		Walk(x.I, f)
		Walk(x.J, f)
	case ArrayLit:
		for _, e := range x.Elems {
			Walk(e, f)
		}
	case Call:
		for _, e := range x.Args {
			Walk(e, f)
		}
	case FuncLit:
		Walk(x.Body, f)
	case Assign:
		Walk(x.Value, f)
	case If:
		Walk(x.Cond, f)
		Walk(x.Then, f)
		Walk(x.Else, f)
	case While:
		Walk(x.Cond, f)
		Walk(x.Body, f)
	case For:
		for _, e := range x.Iters {
			Walk(e, f)
		}
		Walk(x.Body, f)
	case Return:
		Walk(x.X, f)
	case Yield:
		Walk(x.X, f)
	case Block:
		for _, e := range x.Stmts {
			Walk(e, f)
		}
	}
}

// Size counts nodes.
func Size(n Node) int {
	c := 0
	Walk(n, func(Node) bool { c++; return true })
	return c
}

// Denotable checks the structural side conditions under which the documented
// grammar can write a tree (generator self-check).
func Denotable(n Node) string {
	bad := ""
	var visit func(n Node, inBlock bool)
	visit = func(n Node, inBlock bool) {
		if bad != "" || n == nil {
			return
		}
		exprOnly := func(x Node, where string) {
			if !IsExpr(x) {
				bad = where + " is not an expression: " + Sexp(x)
			}
			visit(x, false)
		}
		switch x := n.(type) {
		case Block:
			if inBlock {
				bad = "block directly inside block"
				return
			}
			if len(x.Stmts) < 2 {
				bad = "block with fewer than two statements"
				return
			}
			for _, s := range x.Stmts {
				visit(s, true)
			}
		case IntLit:
			if x.V < 0 {
				bad = "negative integer literal"
			}
		case FloatLit:
			if x.V < 0 {
				bad = "negative float literal"
			}
		case Unary:
			exprOnly(x.X, "unary operand")
		case Binary:
			exprOnly(x.L, "left operand")
			exprOnly(x.R, "right operand")
		case Index:
			exprOnly(x.X, "indexed value")
			exprOnly(x.I, "index")
		case Slice:
			exprOnly(x.X, "sliced value")
			exprOnly(x.I, "slice bound")
			exprOnly(x.J, "slice bound")
		case ArrayLit:
			for _, e := range x.Elems {
				exprOnly(e, "array element")
			}
		case Call:
			for _, e := range x.Args {
				exprOnly(e, "argument")
			}
		case FuncLit:
			visit(x.Body, false)
		case Assign:
			exprOnly(x.Value, "assigned value")
		case If:
			exprOnly(x.Cond, "condition")
			visit(x.Then, false)
			visit(x.Else, false)
		case While:
			exprOnly(x.Cond, "condition")
			visit(x.Body, false)
		case For:
			if len(x.Vars) != len(x.Iters) || len(x.Vars) == 0 {
				bad = "for with mismatching variables/iterators"
			}
			for _, e := range x.Iters {
				exprOnly(e, "iterator")
			}
			visit(x.Body, false)
		case Return:
			exprOnly(x.X, "returned value")
		case Yield:
			exprOnly(x.X, "yielded value")
		}
	}
	visit(n, false)
	return bad
}
