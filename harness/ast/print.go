package ast

import (
	"strconv"
	"strings"
)

// Layout selects one of the many texts that denote the same tree. The zero
// value is the canonical layout: one blank between tokens, minimal
// parentheses, one-line bodies wherever the grammar allows them.
type Layout struct {
	Rnd           func(n int) int // nil: never take a random option
	ExtraParens   int             // % chance of redundant parentheses around an expression
	Compact       bool            // no blank where none is needed
	RandomBlanks  bool            // 0..3 blanks/tabs between tokens
	BlankLines    int             // % chance of extra newlines where newlines are allowed
	ArrayNewlines int             // % chance of a newline after '[' and ',' in array literals
	Comments      int             // % chance of a comment before a newline
	BraceSingles  int             // % chance of bracing a single-statement body
}

func (l *Layout) chance(pct int) bool {
	if l == nil || l.Rnd == nil || pct <= 0 {
		return false
	}
	return l.Rnd(100) < pct
}

type printer struct {
	toks []string
	l    *Layout
}

const nl = "\n"

func (p *printer) emit(t ...string) { p.toks = append(p.toks, t...) }

func (p *printer) newline() {
	if p.l.chance(p.l.Comments) {
		p.emit("; c" + []string{"", " {", " ]", " \"", " x = 1"}[p.l.Rnd(5)])
	}
	p.emit(nl)
	for p.l.chance(p.l.BlankLines) {
		p.emit(nl)
	}
}

// Print renders a top-level statement (no trailing newline).
func Print(n Node, l *Layout) string {
	if l == nil {
		l = &Layout{}
	}
	p := &printer{l: l}
	p.stmt(n)
	return p.join()
}

func isWordByte(c byte) bool {
	return c >= 'a' && c <= 'z' || c >= '0' && c <= '9' || c == '.'
}

func isStickyByte(c byte) bool { return strings.IndexByte("+*/=<>!-&|#%~", c) >= 0 }

func (p *printer) join() string {
	var sb strings.Builder
	for i, t := range p.toks {
		if i > 0 {
			prev := p.toks[i-1]
			if t != nl && prev != nl {
				a, b := prev[len(prev)-1], t[0]
				need := (isWordByte(a) && isWordByte(b)) || (isStickyByte(a) && isStickyByte(b)) || strings.HasPrefix(t, ";")
				switch {
				case p.l.RandomBlanks && p.l.Rnd != nil:
					k := p.l.Rnd(4)
					if k == 0 && need {
						k = 1
					}
					for j := 0; j < k; j++ {
						if p.l.Rnd(5) == 0 {
							sb.WriteByte('\t')
						} else {
							sb.WriteByte(' ')
						}
					}
				case p.l.Compact:
					if need {
						sb.WriteByte(' ')
					}
				default:
					sb.WriteByte(' ')
				}
			}
		}
		sb.WriteString(t)
	}
	return sb.String()
}

// exprLevel: binary 0..4, unary 5, postfix/atom 6, function literal -1.
func exprLevel(n Node) int {
	switch x := n.(type) {
	case Binary:
		return Level(x.Op)
	case Unary:
		return 5
	case FuncLit:
		return -1
	}
	return 6
}

// expr prints n where an operand of at least level min is required; free
// says a bare function literal is acceptable here.
func (p *printer) expr(n Node, min int, free bool) {
	lvl := exprLevel(n)
	paren := lvl < min
	if lvl == -1 {
		paren = !free
	}
	extra := 0
	for extra < 2 && p.l.chance(p.l.ExtraParens) {
		extra++
	}
	if paren {
		extra++
	}
	for i := 0; i < extra; i++ {
		p.emit("(")
	}
	inner := extra > 0
	switch x := n.(type) {
	case IntLit:
		p.emit(strconv.FormatInt(x.V, 10))
	case FloatLit:
		s := strconv.FormatFloat(x.V, 'f', -1, 64)
		if !strings.Contains(s, ".") {
			s += ".0"
		}
		p.emit(s)
	case BoolLit:
		if x.V {
			p.emit("true")
		} else {
			p.emit("false")
		}
	case StrLit:
		p.emit("\"" + strings.ReplaceAll(x.V, "\"", "\\\"") + "\"")
	case Name:
		p.emit(x.N)
	case Unary:
		p.emit(x.Op)
		p.expr(x.X, 6, false)
	case Binary:
		k := Level(x.Op)
		p.expr(x.L, k, false)
		p.emit(x.Op)
		p.expr(x.R, k+1, false)
	case Index:
		p.expr(x.X, 6, false)
		p.emit("[")
		p.expr(x.I, 0, true)
		p.emit("]")
	case Slice:
		p.expr(x.X, 6, false)
		p.emit("[")
		p.expr(x.I, 0, true)
		p.emit(":")
		p.expr(x.J, 0, true)
		p.emit("]")
	case ArrayLit:
		p.emit("[")
		for p.l.chance(p.l.ArrayNewlines) {
			p.newline()
		}
		for i, e := range x.Elems {
			if i > 0 {
				p.emit(",")
				for p.l.chance(p.l.ArrayNewlines) {
					p.newline()
				}
			}
			p.expr(e, 0, true)
		}
		p.emit("]")
	case Call:
		p.emit(x.Fn, "(")
		for i, e := range x.Args {
			if i > 0 {
				p.emit(",")
			}
			p.expr(e, 0, true)
		}
		p.emit(")")
	case FuncLit:
		p.emit("(")
		for i, a := range x.Params {
			if i > 0 {
				p.emit(",")
			}
			p.emit(a)
		}
		p.emit(")", "->")
		// inside parentheses the body is closed by ')'; otherwise it is in a
		// free position where the enclosing ',' ')' ']' or newline ends it
		p.body(x.Body, false, false)
	default:
		panic("ast.Print: not an expression: " + Sexp(n))
	}
	_ = inner
	for i := 0; i < extra; i++ {
		p.emit(")")
	}
}

// endsOpenIf: would an `else` written right after n attach to something
// inside n?
func endsOpenIf(n Node) bool {
	switch x := n.(type) {
	case If:
		if x.Else == nil {
			return true
		}
		return endsOpenIf(x.Else)
	case While:
		return endsOpenIf(x.Body)
	case For:
		return endsOpenIf(x.Body)
	case FuncLit:
		return endsOpenIf(x.Body)
	case Assign:
		return endsOpenIf(x.Value)
	case Return:
		return endsOpenIf(x.X)
	case Yield:
		return endsOpenIf(x.X)
	}
	return false
}

// body prints a block position. afterExpr: an expression immediately
// precedes (if/while condition, for iterators), so a one-line body must not
// start with a token that could continue it. beforeElse: an `else` follows.
func (p *printer) body(n Node, afterExpr, beforeElse bool) {
	if b, ok := n.(Block); ok {
		p.emit("{")
		p.newline()
		for i, s := range b.Stmts {
			if i > 0 {
				p.newline()
			}
			p.stmt(s)
		}
		p.newline()
		p.emit("}")
		return
	}
	brace := p.l.chance(p.l.BraceSingles)
	if beforeElse && endsOpenIf(n) {
		brace = true
	}
	if !brace && afterExpr {
		// look at the first token the body would produce
		q := &printer{l: &Layout{}}
		q.stmt(n)
		first := q.toks[0]
		if first == "(" || first == "[" || isStickyByte(first[0]) {
			brace = true
		}
		// `X (` continues X only when X ends in a variable name (a call); after a literal, `true`/`false`, `)` or
		// `]` a body may start with a parenthesis (half of the time it is left unbraced)
		if first == "(" && len(p.toks) > 0 && p.l.chance(50) {
			last := p.toks[len(p.toks)-1]
			c := last[0]
			if last == "true" || last == "false" || c >= '0' && c <= '9' || c == '"' || last == ")" || last == "]" {
				brace = false
			}
		}
		// redundant parentheses chosen later could also start with '('
		if p.l.ExtraParens > 0 && IsExpr(n) {
			brace = true
		}
	}
	if brace {
		p.emit("{")
		p.newline()
		p.stmt(n)
		p.newline()
		p.emit("}")
		return
	}
	p.stmt(n)
}

func (p *printer) stmt(n Node) {
	switch x := n.(type) {
	case Assign:
		p.emit(x.Name, "=")
		p.expr(x.Value, 0, true)
	case If:
		p.emit("if")
		p.expr(x.Cond, 0, false)
		p.body(x.Then, true, x.Else != nil)
		if x.Else != nil {
			p.emit("else")
			p.body(x.Else, false, false)
		}
	case While:
		p.emit("while")
		p.expr(x.Cond, 0, false)
		p.body(x.Body, true, false)
	case For:
		p.emit("for")
		for i, v := range x.Vars {
			if i > 0 {
				p.emit(",")
			}
			p.emit(v)
		}
		p.emit("<-")
		for i, it := range x.Iters {
			if i > 0 {
				p.emit(",")
			}
			p.expr(it, 0, false)
		}
		p.body(x.Body, true, false)
	case Return:
		p.emit("return")
		p.expr(x.X, 0, true)
	case Yield:
		p.emit("yield")
		p.expr(x.X, 0, true)
	case Block:
		p.body(x, false, false)
	default:
		p.expr(n, 0, true)
	}
}
