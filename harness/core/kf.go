package core

import (
	"encoding/json"
	"fmt"
	"os"
)

// KFEntry is one line of known_findings.json. Status "fixed" entries are
// documentation only: they have no matcher and suppress nothing.
type KFEntry struct {
	Status    string          `json:"status"` // known | fixed
	ID        string          `json:"id"`
	Property  string          `json:"property"`
	Line      string          `json:"line"`
	What      string          `json:"what_fails"`
	Matcher   string          `json:"matcher,omitempty"`
	Canonical json.RawMessage `json:"canonical_input,omitempty"`
	Commit    string          `json:"commit,omitempty"`
}

type KFSet struct{ Entries []KFEntry }

// MatcherFunc decides whether a violated case is exactly that finding.
// info is property specific (the case, the observation).
type MatcherFunc func(v *Violation, info any) bool

var matchers = map[string]MatcherFunc{}

func RegisterMatcher(name string, f MatcherFunc) { matchers[name] = f }

func LoadKnownFindings(path string) (*KFSet, error) {
	b, err := os.ReadFile(path)
	if err != nil {
		if os.IsNotExist(err) {
			return &KFSet{}, nil
		}
		return nil, err
	}
	var es []KFEntry
	if err := json.Unmarshal(b, &es); err != nil {
		return nil, fmt.Errorf("known_findings.json: %v", err)
	}
	for _, e := range es {
		if e.Status == "known" {
			if _, ok := matchers[e.Matcher]; !ok {
				return nil, fmt.Errorf("known_findings.json: entry %s names unknown matcher %q", e.ID, e.Matcher)
			}
		}
	}
	return &KFSet{Entries: es}, nil
}

func (k *KFSet) ByID(id string) *KFEntry {
	for i := range k.Entries {
		if k.Entries[i].ID == id {
			return &k.Entries[i]
		}
	}
	return nil
}

// Attribute returns the ids of the known entries of prop whose matcher
// accepts the violation.
func (k *KFSet) Attribute(prop string, v *Violation, info any) []string {
	var ids []string
	for _, e := range k.Entries {
		if e.Status != "known" || e.Property != prop {
			continue
		}
		if m := matchers[e.Matcher]; m != nil && m(v, info) {
			ids = append(ids, e.ID)
		}
	}
	return ids
}

var loadedKF *KFSet

// KF returns the process-wide known-findings set (read-only, loaded once
// from $VERIF_DIR/known_findings.json).
func KF() *KFSet {
	if loadedKF == nil {
		dir := os.Getenv("VERIF_DIR")
		if dir == "" {
			dir = "/verif"
		}
		k, err := LoadKnownFindings(dir + "/known_findings.json")
		if err != nil {
			fmt.Fprintln(os.Stderr, err)
			os.Exit(3)
		}
		loadedKF = k
	}
	return loadedKF
}
