// Package core holds the plumbing shared by every check: PRNG, case/result
// types, the worker loop, the driver and the evidence writer.
package core

// Rng is a SplitMix64 generator. Case lists are a pure function of
// (seed, family, index), so every case is replayable alone.
type Rng struct{ s uint64 }

func NewRng(seed uint64) *Rng { return &Rng{s: seed} }

func Mix(a uint64) uint64 {
	a += 0x9e3779b97f4a7c15
	a = (a ^ (a >> 30)) * 0xbf58476d1ce4e5b9
	a = (a ^ (a >> 27)) * 0x94d049bb133111eb
	return a ^ (a >> 31)
}

// HashString is FNV-1a 64.
func HashString(s string) uint64 {
	h := uint64(14695981039346656037)
	for i := 0; i < len(s); i++ {
		h ^= uint64(s[i])
		h *= 1099511628211
	}
	return h
}

// CaseRng derives the generator of case idx of a family.
func CaseRng(seed uint64, family string, idx int) *Rng {
	return NewRng(Mix(Mix(seed)^HashString(family)) ^ Mix(uint64(idx)+0x1234567))
}

func (r *Rng) U64() uint64 {
	r.s += 0x9e3779b97f4a7c15
	z := r.s
	z = (z ^ (z >> 30)) * 0xbf58476d1ce4e5b9
	z = (z ^ (z >> 27)) * 0x94d049bb133111eb
	return z ^ (z >> 31)
}

// Intn returns a value in [0,n).
func (r *Rng) Intn(n int) int {
	if n <= 0 {
		return 0
	}
	return int(r.U64() % uint64(n))
}

// Range returns a value in [lo,hi].
func (r *Rng) Range(lo, hi int) int {
	if hi <= lo {
		return lo
	}
	return lo + r.Intn(hi-lo+1)
}

func (r *Rng) Bool() bool { return r.U64()&1 == 1 }

// Chance is true with probability num/den.
func (r *Rng) Chance(num, den int) bool { return r.Intn(den) < num }

func (r *Rng) Float() float64 { return float64(r.U64()>>11) / float64(1<<53) }

// Pick returns an index chosen according to weights.
func (r *Rng) Pick(weights ...int) int {
	t := 0
	for _, w := range weights {
		t += w
	}
	if t <= 0 {
		return 0
	}
	x := r.Intn(t)
	for i, w := range weights {
		if x < w {
			return i
		}
		x -= w
	}
	return len(weights) - 1
}

func PickStr(r *Rng, xs []string) string { return xs[r.Intn(len(xs))] }
