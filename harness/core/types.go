package core

import "encoding/json"

// Verdicts. Three-valued plus two bookkeeping outcomes:
//
//	held         every monitor attached to the case was evaluated and agreed
//	violated     a monitor disagreed (replay written, VIOLATION printed)
//	known        violated, but attributed to an entry of known_findings.json
//	inconclusive no verdict (reference budget, divergence, watchdog, oom)
//	dropped      generated case fell outside the agreed region (counted, not run)
const (
	Held         = "held"
	Violated     = "violated"
	Known        = "known"
	Inconclusive = "inconclusive"
	Dropped      = "dropped"
)

// Violation describes what a monitor saw.
type Violation struct {
	Monitor  string `json:"monitor"`
	Detail   string `json:"detail"`
	Input    any    `json:"input,omitempty"`
	Expected any    `json:"expected,omitempty"`
	Observed any    `json:"observed,omitempty"`
}

// Result is the outcome of one case.
type Result struct {
	Verdict    string         `json:"v"`
	Reason     string         `json:"reason,omitempty"`
	Hash       uint64         `json:"h,omitempty"`
	Nontrivial bool           `json:"nt,omitempty"`
	Sample     any            `json:"sample,omitempty"`
	Viol       *Violation     `json:"viol,omitempty"`
	KF         []string       `json:"kf,omitempty"`
	Count      map[string]int `json:"-"`
	Max        map[string]int `json:"-"`
	Tags       []string       `json:"-"`
}

func (r *Result) Add(k string, n int) {
	if r.Count == nil {
		r.Count = map[string]int{}
	}
	r.Count[k] += n
}

func (r *Result) SetMax(k string, n int) {
	if r.Max == nil {
		r.Max = map[string]int{}
	}
	if n > r.Max[k] {
		r.Max[k] = n
	}
}

func (r *Result) Tag(t string) { r.Tags = append(r.Tags, t) }

// Ctx is what a case may know about its run.
type Ctx struct {
	Seed   uint64
	Tier   string
	Replay bool // verbose: a single case is being re-executed
}

// Family is one deterministic case list of a property.
type Family struct {
	Name  string
	Count func(tier string) int
	// Run executes case idx. It must be a pure function of (seed, idx).
	Run func(c *Ctx, idx int) Result
	// Chunk > 1 marks families whose cases are cheap; the driver still
	// attributes a death to one idx.
	Serial bool // run in a single worker (process-level families)
}

// Floor is a minimum the aggregated run must reach before it may exit 0.
type Floor struct {
	Key   string // counter name, "tag:<prefix>" (number of distinct tags with prefix), or "nontrivial"
	Quick int
	Thor  int
}

// Property is a registered check.
type Property struct {
	ID          string
	Level       string // evidence level, "exploration" unless stated
	Rule        string
	Assumptions []string
	Families    []Family
	Floors      []Floor
	// Sanitize lists the families that the thorough tier replays (at quick size)
	// under the -race (checkptr) and -asan builds of the worker.
	Sanitize []string
	// DeathKF attributes a worker death (Go fatal) to a known finding id, or "".
	DeathKF func(family string, stderr string) string
	// Extra lets the property add keys to coverage from the aggregate.
	Extra func(a *Agg, cov map[string]any)
}

// Summary is an additive delta a worker flushes periodically.
type Summary struct {
	Family   string            `json:"family"`
	Cases    int               `json:"cases"`
	Verdicts map[string]int    `json:"verdicts"`
	Reasons  map[string]int    `json:"reasons,omitempty"`
	Count    map[string]int    `json:"count,omitempty"`
	Max      map[string]int    `json:"max,omitempty"`
	Tags     []string          `json:"tags,omitempty"`
	Samples  []json.RawMessage `json:"samples,omitempty"`
}

// Agg is the driver-side aggregate of a run.
type Agg struct {
	Cases      int
	PerFamily  map[string]int
	Verdicts   map[string]int
	Reasons    map[string]int
	Count      map[string]int
	Max        map[string]int
	Tags       map[string]bool
	Hashes     map[uint64]struct{}
	Samples    []json.RawMessage
	Violations []ViolRec
	KF         map[string]int
	Deaths     int
	CoverText  string
}

// ViolRec is a violation with its coordinates.
type ViolRec struct {
	Property string     `json:"property"`
	Family   string     `json:"family"`
	Seed     uint64     `json:"seed"`
	Idx      int        `json:"idx"`
	Tier     string     `json:"tier"`
	Viol     *Violation `json:"violation"`
	Stderr   string     `json:"stderr,omitempty"`
}

func NewAgg() *Agg {
	return &Agg{PerFamily: map[string]int{}, Verdicts: map[string]int{}, Reasons: map[string]int{}, Count: map[string]int{},
		Max: map[string]int{}, Tags: map[string]bool{}, Hashes: map[uint64]struct{}{}, KF: map[string]int{}}
}

func (a *Agg) TagsWithPrefix(p string) []string {
	var r []string
	for t := range a.Tags {
		if len(t) >= len(p) && t[:len(p)] == p {
			r = append(r, t)
		}
	}
	return r
}
