package core

import (
	"encoding/json"
	"fmt"
	"os"
	"path/filepath"
	"sort"
)

func writeEvidence(p *Property, o DriveOpts, agg *Agg, wall float64, viol int, kfIDs []string) {
	cov := map[string]any{}
	cov["evaluations"] = agg.Cases
	cov["distinct_nontrivial"] = len(agg.Hashes)
	cov["rule"] = p.Rule
	// samples: first 3 + 3 spread
	var samples []any
	pick := func(b json.RawMessage) {
		var v any
		if json.Unmarshal(b, &v) == nil {
			samples = append(samples, v)
		}
	}
	n := len(agg.Samples)
	for i := 0; i < n && i < 3; i++ {
		pick(agg.Samples[i])
	}
	if n > 3 {
		step := (n - 3) / 3
		if step < 1 {
			step = 1
		}
		for i := 3; i < n && len(samples) < 6; i += step {
			pick(agg.Samples[i])
		}
	}
	if len(samples) == 0 {
		samples = append(samples, "no sample recorded (run observed nothing)")
	}
	cov["samples"] = samples
	cov["per_family"] = agg.PerFamily
	cov["verdicts"] = agg.Verdicts
	if len(agg.Reasons) > 0 {
		cov["inconclusive_and_dropped_by_reason"] = agg.Reasons
	}
	if len(agg.Count) > 0 {
		cov["counters"] = agg.Count
	}
	if len(agg.Max) > 0 {
		cov["measured_maxima"] = agg.Max
	}
	if len(agg.Tags) > 0 {
		groups := map[string][]string{}
		for t := range agg.Tags {
			g := t
			for i := 0; i < len(t); i++ {
				if t[i] == ':' {
					g = t[:i]
					break
				}
			}
			groups[g] = append(groups[g], t)
		}
		tg := map[string]any{}
		for g, ts := range groups {
			sort.Strings(ts)
			if len(ts) > 400 {
				tg[g] = map[string]any{"count": len(ts), "first": ts[:400]}
			} else {
				tg[g] = map[string]any{"count": len(ts), "list": ts}
			}
		}
		cov["observed_classes"] = tg
	}
	cov["worker_deaths"] = agg.Deaths
	if kfIDs == nil {
		kfIDs = []string{}
	}
	cov["known_findings_matched"] = kfIDs
	if agg.CoverText != "" {
		cov["statement_coverage_of_calc_packages_quick_size_replay"] = agg.CoverText
	}
	cov["exhaustive"] = false
	if p.Extra != nil {
		p.Extra(agg, cov)
	}
	level := p.Level
	if level == "" {
		level = "exploration"
	}
	ev := map[string]any{
		"property_id": p.ID,
		"tier":        o.Tier,
		"seed":        int64(o.Seed),
		"level":       level,
		"coverage":    cov,
		"assumptions": p.Assumptions,
		"wall_s":      wall,
		"violations":  viol,
	}
	b, _ := json.MarshalIndent(ev, "", " ")
	dir := filepath.Join(o.VerifDir, "evidence")
	if d := os.Getenv("VERIF_OUT"); d != "" {
		dir = filepath.Join(d, "evidence")
	}
	os.MkdirAll(dir, 0o755)
	if err := os.WriteFile(filepath.Join(dir, p.ID+".json"), b, 0o644); err != nil {
		fmt.Fprintf(os.Stderr, "cannot write evidence: %v\n", err)
	}
}
