package core

import (
	"bufio"
	"encoding/binary"
	"encoding/json"
	"fmt"
	"os"
	"runtime/metrics"
	"sort"
	"time"
)

// OOMExit is the exit code of a worker that stopped itself because its heap
// passed the safety limit: an inconclusive outcome, never a verdict.
const OOMExit = 77

const heapLimit = 3 << 30

func startHeapGuard() {
	go func() {
		s := []metrics.Sample{{Name: "/memory/classes/heap/objects:bytes"}}
		for {
			time.Sleep(50 * time.Millisecond)
			metrics.Read(s)
			if s[0].Value.Uint64() > heapLimit {
				fmt.Fprintln(os.Stderr, "verif: heap guard fired")
				os.Exit(OOMExit)
			}
		}
	}()
}

// Work runs cases [lo,hi) of one family and streams outcomes to outPath.
func Work(p *Property, fam *Family, c *Ctx, lo, hi int, outPath string) error {
	startHeapGuard()
	f, err := os.Create(outPath)
	if err != nil {
		return err
	}
	defer f.Close()
	hf, err := os.Create(outPath + ".h")
	if err != nil {
		return err
	}
	defer hf.Close()
	hw := bufio.NewWriter(hf)
	defer hw.Flush()

	sum := newSummary(fam.Name)
	tags := map[string]bool{}
	flush := func() {
		for t := range tags {
			sum.Tags = append(sum.Tags, t)
		}
		sort.Strings(sum.Tags)
		b, _ := json.Marshal(sum)
		fmt.Fprintf(f, "S %s\n", b)
		hw.Flush()
		sum = newSummary(fam.Name)
		tags = map[string]bool{}
	}
	nsamples := 0
	nviol := 0
	for i := lo; i < hi; i++ {
		if nviol > 30 {
			// this part of the case list has already produced dozens of violations: the tree is decided, and a tree
			// that makes every case slow (runaway loops) would otherwise keep the check busy for hours
			sum.Count["cases_skipped_after_30_violations_in_one_chunk"] += hi - i
			break
		}
		fmt.Fprintf(f, "B %d\n", i)
		r := fam.Run(c, i)
		fmt.Fprintf(f, "E %d %s\n", i, r.Verdict)
		sum.Cases++
		sum.Verdicts[r.Verdict]++
		if r.Reason != "" && (r.Verdict == Inconclusive || r.Verdict == Dropped) {
			sum.Reasons[r.Verdict+"/"+r.Reason]++
		}
		for k, v := range r.Count {
			sum.Count[k] += v
		}
		for k, v := range r.Max {
			if v > sum.Max[k] {
				sum.Max[k] = v
			}
		}
		for _, t := range r.Tags {
			tags[t] = true
		}
		if r.Nontrivial {
			var b [8]byte
			binary.LittleEndian.PutUint64(b[:], r.Hash)
			hw.Write(b[:])
		}
		if r.Sample != nil && nsamples < 4 && (i < lo+2 || Mix(uint64(i))%251 == 0) {
			if b, err := json.Marshal(r.Sample); err == nil && len(b) < 6000 {
				sum.Samples = append(sum.Samples, b)
				nsamples++
			}
		}
		switch r.Verdict {
		case Violated:
			nviol++
			rec := ViolRec{Property: p.ID, Family: fam.Name, Seed: c.Seed, Idx: i, Tier: c.Tier, Viol: r.Viol}
			b, _ := json.Marshal(rec)
			fmt.Fprintf(f, "V %s\n", b)
		case Known:
			for _, id := range r.KF {
				fmt.Fprintf(f, "K %s %d\n", id, i)
			}
		}
		if (i-lo)%512 == 511 {
			flush()
		}
	}
	flush()
	fmt.Fprintf(f, "D\n")
	return nil
}

func newSummary(name string) *Summary {
	return &Summary{Family: name, Verdicts: map[string]int{}, Reasons: map[string]int{}, Count: map[string]int{}, Max: map[string]int{}}
}
