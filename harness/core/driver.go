package core

import (
	"bufio"
	"bytes"
	"encoding/binary"
	"encoding/json"
	"fmt"
	"os"
	"os/exec"
	"path/filepath"
	"sort"
	"strconv"
	"strings"
	"sync"
	"syscall"
	"time"
)

// DriveOpts configures a run.
type DriveOpts struct {
	Tier     string
	Seed     uint64
	Self     string // path of this binary
	VerifDir string
	Par      int
	Only     string // restrict to one family (debugging)
}

type chunk struct {
	fam    *Family
	lo, hi int
}

// Drive runs every family of p, aggregates, writes evidence, prints verdict
// lines and returns the process exit code.
func Drive(p *Property, o DriveOpts) int {
	start := time.Now()
	work := filepath.Join(o.VerifDir, "work", fmt.Sprintf("%s-%d", p.ID, os.Getpid()))
	os.MkdirAll(work, 0o755)
	defer os.RemoveAll(work)
	kfs, err := LoadKnownFindings(filepath.Join(o.VerifDir, "known_findings.json"))
	if err != nil {
		fmt.Printf("CHECK-BROKEN: %v\n", err)
		return 2
	}

	agg := NewAgg()
	var mu sync.Mutex
	var chunks []chunk
	for i := range p.Families {
		f := &p.Families[i]
		if o.Only != "" && f.Name != o.Only {
			continue
		}
		n := f.Count(o.Tier)
		if n <= 0 {
			continue
		}
		if f.Serial {
			chunks = append(chunks, chunk{f, 0, n})
			continue
		}
		per := (n + o.Par*3 - 1) / (o.Par * 3)
		if per < 1 {
			per = 1
		}
		for lo := 0; lo < n; lo += per {
			hi := lo + per
			if hi > n {
				hi = n
			}
			chunks = append(chunks, chunk{f, lo, hi})
		}
	}
	ch := make(chan chunk)
	var wg sync.WaitGroup
	for w := 0; w < o.Par; w++ {
		wg.Add(1)
		go func(w int) {
			defer wg.Done()
			seq := 0
			for c := range ch {
				seq++
				runChunk(p, c, o, work, fmt.Sprintf("w%d_%d", w, seq), agg, &mu)
			}
		}(w)
	}
	for _, c := range chunks {
		// a tree that already produced hundreds of violations or dozens of worker deaths is decided:
		// skip the rest instead of paying a process restart per case
		mu.Lock()
		stop := len(agg.Violations) > 400 || agg.Deaths > 60
		if stop {
			agg.Count["chunks_skipped_after_massive_failure"]++ // under the lock: workers are still absorbing
		}
		mu.Unlock()
		if stop {
			continue
		}
		ch <- c
	}
	close(ch)
	wg.Wait()

	// sanitizer replays: the same deterministic case lists (quick size) on
	// instrumented builds of the worker; a report is process-fatal and is
	// attributed to the open case like any other death
	if bins := os.Getenv("VERIF_SAN_BINS"); bins != "" && o.Only == "" {
		for _, kv := range strings.Split(bins, ",") {
			parts := strings.SplitN(kv, "=", 2)
			if len(parts) != 2 {
				continue
			}
			for i := range p.Families {
				f := &p.Families[i]
				use := false
				for _, n := range p.Sanitize {
					if n == f.Name {
						use = true
					}
				}
				if !use {
					continue
				}
				n := f.Count("quick")
				before := agg.Cases
				WorkerBinary = parts[1]
				per := (n + o.Par - 1) / o.Par
				if per < 1 {
					per = 1
				}
				var wg2 sync.WaitGroup
				sem := make(chan struct{}, o.Par)
				k := 0
				for lo := 0; lo < n; lo += per {
					hi := lo + per
					if hi > n {
						hi = n
					}
					k++
					wg2.Add(1)
					sem <- struct{}{}
					go func(lo, hi, k int) {
						defer wg2.Done()
						defer func() { <-sem }()
						runChunk(p, chunk{f, lo, hi}, o, work, fmt.Sprintf("san_%s_%d", parts[0], k), agg, &mu)
					}(lo, hi, k)
				}
				wg2.Wait()
				WorkerBinary = ""
				agg.Count["sanitizer_"+parts[0]+"_cases"] += agg.Cases - before
			}
		}
	}

	// statement coverage of the code under test (evidence only): the quick-size
	// case lists once more on a -cover build of the worker
	coverText := ""
	if cb := os.Getenv("VERIF_COVER_BIN"); cb != "" && o.Only == "" {
		covDir := filepath.Join(work, "cov")
		os.MkdirAll(covDir, 0o755)
		os.Setenv("GOCOVERDIR", covDir)
		WorkerBinary = cb
		scratch := NewAgg()
		for i := range p.Families {
			f := &p.Families[i]
			n := f.Count("quick")
			per := (n + o.Par - 1) / o.Par
			if per < 1 {
				per = 1
			}
			var wg3 sync.WaitGroup
			k := 0
			for lo := 0; lo < n; lo += per {
				hi := lo + per
				if hi > n {
					hi = n
				}
				k++
				wg3.Add(1)
				go func(lo, hi, k int) {
					defer wg3.Done()
					runChunk(p, chunk{f, lo, hi}, o, work, fmt.Sprintf("cov_%d", k), scratch, &mu)
				}(lo, hi, k)
			}
			wg3.Wait()
		}
		WorkerBinary = ""
		os.Unsetenv("GOCOVERDIR")
		if out, err := exec.Command("go", "tool", "covdata", "percent", "-i", covDir).CombinedOutput(); err == nil {
			for _, l := range strings.Split(string(out), "\n") {
				f := strings.Fields(l)
				if len(f) >= 3 && strings.HasPrefix(f[0], "github.com/paulsonkoly/calc/") && f[1] == "coverage:" {
					coverText += strings.TrimPrefix(f[0], "github.com/paulsonkoly/calc/") + " " + f[2] + "; "
				}
			}
		}
		agg.Count["coverage_replay_cases"] = scratch.Cases
	}
	agg.CoverText = coverText

	// verdict lines
	viol := 0
	outDir := o.VerifDir
	if d := os.Getenv("VERIF_OUT"); d != "" {
		outDir = d
	}
	os.MkdirAll(filepath.Join(outDir, "replays"), 0o755)
	sort.Slice(agg.Violations, func(i, j int) bool {
		a, b := agg.Violations[i], agg.Violations[j]
		if a.Family != b.Family {
			return a.Family < b.Family
		}
		return a.Idx < b.Idx
	})
	for i, v := range agg.Violations {
		viol++
		if i >= 25 {
			continue
		}
		path := filepath.Join(outDir, "replays", fmt.Sprintf("%s_%s_%d_%d.json", p.ID, v.Family, v.Seed, v.Idx))
		b, _ := json.MarshalIndent(v, "", " ")
		os.WriteFile(path, b, 0o644)
		fmt.Printf("VIOLATION property=%s replay=%s\n", p.ID, path)
		if v.Viol != nil {
			fmt.Printf("  family=%s idx=%d monitor=%s: %s\n", v.Family, v.Idx, v.Viol.Monitor, trunc(v.Viol.Detail, 400))
		}
	}
	if viol > 0 {
		byMon := map[string]int{}
		for _, v := range agg.Violations {
			k := v.Family + "/"
			if v.Viol != nil {
				k += v.Viol.Monitor
			}
			byMon[k]++
		}
		fmt.Printf("violations by family/monitor: %v\n", byMon)
	}
	var kfIDs []string
	for id := range agg.KF {
		kfIDs = append(kfIDs, id)
	}
	sort.Strings(kfIDs)
	for _, id := range kfIDs {
		e := kfs.ByID(id)
		if e == nil || e.Status != "known" || e.Property != p.ID {
			fmt.Printf("CHECK-BROKEN: case attributed to unknown finding id %q\n", id)
			return 2
		}
		fmt.Printf("KNOWN-FINDING: property=%s %s (cases matched: %d)\n", p.ID, e.What, agg.KF[id])
	}

	broken := []string{}
	for _, fl := range p.Floors {
		want := fl.Quick
		if o.Tier == "thorough" {
			want = fl.Thor
		}
		if o.Only != "" {
			continue
		}
		got := 0
		switch {
		case fl.Key == "nontrivial":
			got = len(agg.Hashes)
		case strings.HasPrefix(fl.Key, "tag:"):
			got = len(agg.TagsWithPrefix(fl.Key[4:]))
		default:
			got = agg.Count[fl.Key]
		}
		if got < want {
			broken = append(broken, fmt.Sprintf("floor %s: observed %d < required %d", fl.Key, got, want))
		}
	}
	if o.Only == "" && agg.Cases > 0 && agg.Verdicts[Inconclusive]*100 > agg.Cases*p.maxInconclusivePct() {
		broken = append(broken, fmt.Sprintf("inconclusive cases %d of %d exceed %d%%", agg.Verdicts[Inconclusive], agg.Cases, p.maxInconclusivePct()))
	}

	writeEvidence(p, o, agg, time.Since(start).Seconds(), viol, kfIDs)

	fmt.Printf("%s %s seed=%d: cases=%d held=%d violated=%d known=%d inconclusive=%d dropped=%d distinct_nontrivial=%d deaths=%d wall=%.1fs\n",
		p.ID, o.Tier, o.Seed, agg.Cases, agg.Verdicts[Held], viol, agg.Verdicts[Known], agg.Verdicts[Inconclusive], agg.Verdicts[Dropped], len(agg.Hashes), agg.Deaths, time.Since(start).Seconds())
	if viol > 0 {
		return 1
	}
	if len(broken) > 0 {
		for _, b := range broken {
			fmt.Printf("CHECK-BROKEN: %s\n", b)
		}
		return 2
	}
	return 0
}

// MaxInconclusivePct may be overridden per property through this table.
var MaxInconclusivePct = map[string]int{}

func (p *Property) maxInconclusivePct() int {
	if v, ok := MaxInconclusivePct[p.ID]; ok {
		return v
	}
	return 2
}

func trunc(s string, n int) string {
	if len(s) > n {
		return s[:n] + "..."
	}
	return s
}

// CaseSeconds is the per-case wall-clock allowance used only for the outer
// watchdog (inconclusive when it fires, never a verdict).
var CaseSeconds = map[string]float64{}

func runChunk(p *Property, c chunk, o DriveOpts, work, tag string, agg *Agg, mu *sync.Mutex) {
	lo := c.lo
	attempt := 0
	for lo < c.hi {
		attempt++
		out := filepath.Join(work, fmt.Sprintf("%s_%s_%d.out", tag, c.fam.Name, attempt))
		per := CaseSeconds[p.ID+"/"+c.fam.Name]
		if per == 0 {
			per = 0.25
		}
		to := time.Duration((120 + per*float64(c.hi-lo)*20) * float64(time.Second))
		done, died, exit, timedOut, stderr := spawn(p, c.fam, o, lo, c.hi, out, to)
		mu.Lock()
		absorb(out, agg)
		mu.Unlock()
		os.Remove(out)
		os.Remove(out + ".h")
		if done {
			return
		}
		if died < 0 { // died before the first case began
			mu.Lock()
			agg.Deaths++
			agg.Violations = append(agg.Violations, ViolRec{Property: p.ID, Family: c.fam.Name, Seed: o.Seed, Idx: lo, Tier: o.Tier,
				Viol: &Violation{Monitor: "worker-start", Detail: fmt.Sprintf("worker exited %d before running a case", exit)}, Stderr: tail(stderr, 4000)})
			mu.Unlock()
			return
		}
		// the case `died` killed the worker
		verdict, reason, kf := Violated, "", ""
		switch {
		case exit == OOMExit:
			verdict, reason = Inconclusive, "oom"
		case timedOut && !isoBudget():
			verdict, reason = Inconclusive, "watchdog"
		case timedOut:
			// one isolated re-run with a long timeout (at most a few per run)
			out2 := out + ".iso"
			d2, _, e2, t2, se2 := spawn(p, c.fam, o, died, died+1, out2, 4*time.Minute)
			if d2 {
				mu.Lock()
				absorb(out2, agg)
				mu.Unlock()
				verdict = ""
			} else if t2 {
				verdict, reason = Inconclusive, "watchdog"
			} else if e2 == OOMExit {
				verdict, reason = Inconclusive, "oom"
			} else {
				stderr = se2
			}
			os.Remove(out2)
			os.Remove(out2 + ".h")
		}
		if verdict == Violated && p.DeathKF != nil {
			if id := p.DeathKF(c.fam.Name, stderr); id != "" {
				verdict, kf = Known, id
			}
		}
		mu.Lock()
		if verdict != "" {
			agg.Deaths++
			agg.Cases++
			agg.PerFamily[c.fam.Name]++
			agg.Verdicts[verdict]++
			switch verdict {
			case Inconclusive:
				agg.Reasons[Inconclusive+"/"+reason]++
			case Known:
				agg.KF[kf]++
			case Violated:
				agg.Violations = append(agg.Violations, ViolRec{Property: p.ID, Family: c.fam.Name, Seed: o.Seed, Idx: died, Tier: o.Tier,
					Viol:   &Violation{Monitor: "process-death", Detail: fmt.Sprintf("worker died (exit %d) while executing this case: %s", exit, firstFatal(stderr))},
					Stderr: tail(stderr, 6000)})
			}
		}
		mu.Unlock()
		lo = died + 1
	}
}

func firstFatal(s string) string {
	for _, l := range strings.Split(s, "\n") {
		if strings.HasPrefix(l, "fatal error:") || strings.HasPrefix(l, "panic:") || strings.HasPrefix(l, "runtime:") || strings.Contains(l, "ERROR: AddressSanitizer") || strings.Contains(l, "checkptr") {
			return trunc(l, 300)
		}
	}
	return trunc(strings.TrimSpace(s), 300)
}

func tail(s string, n int) string {
	if len(s) > n {
		return s[:n/2] + "\n...\n" + s[len(s)-n/2:]
	}
	return s
}

var isoMu sync.Mutex
var isoLeft = 6

// isoBudget: isolated re-runs are expensive; a run gets six of them.
func isoBudget() bool {
	isoMu.Lock()
	defer isoMu.Unlock()
	if isoLeft <= 0 {
		return false
	}
	isoLeft--
	return true
}

// WorkerBinary lets a check substitute a sanitizer build of the worker.
var WorkerBinary = ""

// spawn runs one worker. done: it finished its range; died: idx of the case
// in flight when it stopped (-1 none).
func spawn(p *Property, f *Family, o DriveOpts, lo, hi int, out string, to time.Duration) (done bool, died int, exit int, timedOut bool, stderr string) {
	bin := o.Self
	if WorkerBinary != "" {
		bin = WorkerBinary
	}
	cmd := exec.Command(bin, "work", p.ID, f.Name, strconv.FormatUint(o.Seed, 10), o.Tier, strconv.Itoa(lo), strconv.Itoa(hi), out)
	cmd.Env = append(os.Environ(), "GOTRACEBACK=single", "VERIF_DIR="+o.VerifDir)
	var eb bytes.Buffer
	cmd.Stderr = &limitedWriter{b: &eb, n: 1 << 20}
	cmd.Stdout = cmd.Stderr
	cmd.SysProcAttr = &syscall.SysProcAttr{Setpgid: true, Pdeathsig: syscall.SIGKILL}
	if err := cmd.Start(); err != nil {
		return false, -1, -1, false, err.Error()
	}
	fin := make(chan error, 1)
	go func() { fin <- cmd.Wait() }()
	var err error
	select {
	case err = <-fin:
	case <-time.After(to):
		timedOut = true
		syscall.Kill(-cmd.Process.Pid, syscall.SIGQUIT)
		select {
		case err = <-fin:
		case <-time.After(10 * time.Second):
			syscall.Kill(-cmd.Process.Pid, syscall.SIGKILL)
			err = <-fin
		}
	}
	stderr = eb.String()
	exit = 0
	if err != nil {
		exit = -1
		if ee, ok := err.(*exec.ExitError); ok {
			exit = ee.ExitCode()
		}
	}
	done, died = scanOut(out)
	if done && exit != 0 {
		done = false
	}
	return
}

type limitedWriter struct {
	b *bytes.Buffer
	n int
}

func (l *limitedWriter) Write(p []byte) (int, error) {
	if l.b.Len() < l.n {
		l.b.Write(p)
	}
	return len(p), nil
}

func scanOut(out string) (done bool, died int) {
	died = -1
	f, err := os.Open(out)
	if err != nil {
		return false, -1
	}
	defer f.Close()
	sc := bufio.NewScanner(f)
	sc.Buffer(make([]byte, 1<<20), 64<<20)
	open := -1
	for sc.Scan() {
		l := sc.Text()
		switch {
		case strings.HasPrefix(l, "B "):
			open, _ = strconv.Atoi(l[2:])
		case strings.HasPrefix(l, "E "):
			open = -1
		case l == "D":
			done = true
		}
	}
	return done, open
}

// absorb merges a worker output file into the aggregate. Only complete S
// blocks count; cases after the last S of a dead worker are re-counted from
// their E lines for verdict totals only.
func absorb(out string, agg *Agg) {
	f, err := os.Open(out)
	if err != nil {
		return
	}
	defer f.Close()
	sc := bufio.NewScanner(f)
	sc.Buffer(make([]byte, 1<<20), 64<<20)
	pending := map[string]int{}
	npending := 0
	for sc.Scan() {
		l := sc.Text()
		switch {
		case strings.HasPrefix(l, "E "):
			parts := strings.SplitN(l, " ", 3)
			if len(parts) == 3 {
				pending[parts[2]]++
				npending++
			}
		case strings.HasPrefix(l, "S "):
			var s Summary
			if json.Unmarshal([]byte(l[2:]), &s) != nil {
				continue
			}
			agg.Cases += s.Cases
			agg.PerFamily[s.Family] += s.Cases
			for k, v := range s.Verdicts {
				agg.Verdicts[k] += v
			}
			for k, v := range s.Reasons {
				agg.Reasons[k] += v
			}
			for k, v := range s.Count {
				agg.Count[k] += v
			}
			for k, v := range s.Max {
				if v > agg.Max[k] {
					agg.Max[k] = v
				}
			}
			for _, t := range s.Tags {
				agg.Tags[t] = true
			}
			if len(agg.Samples) < 400 {
				agg.Samples = append(agg.Samples, s.Samples...)
			}
			pending = map[string]int{}
			npending = 0
		case strings.HasPrefix(l, "V "):
			var v ViolRec
			if json.Unmarshal([]byte(l[2:]), &v) == nil {
				agg.Violations = append(agg.Violations, v)
			}
		case strings.HasPrefix(l, "K "):
			parts := strings.Fields(l)
			if len(parts) >= 2 {
				agg.KF[parts[1]]++
			}
		}
	}
	// cases whose summary block was lost with the worker
	agg.Cases += npending
	for k, v := range pending {
		agg.Verdicts[k] += v
	}
	if hb, err := os.ReadFile(out + ".h"); err == nil {
		for i := 0; i+8 <= len(hb); i += 8 {
			agg.Hashes[binary.LittleEndian.Uint64(hb[i:])] = struct{}{}
		}
	}
}
