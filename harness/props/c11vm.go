//go:build !skip_c11

package props

import (
	"fmt"
	"math"

	"verif/ast"

	"verif/calcrun"
	"verif/core"
	"verif/val"
)

// The VM leg of C11: the same operand pairs, injected as globals, through
// compiled programs in the plain opcode form (`xa op xb`) and in the
// temp-register form (the operator nested under another operator, which makes
// the compiler emit MOV TMP / <op>TMP), so the opcode-offset arithmetic of the
// TMP instructions is covered for every operator and operand kind.

func c11VMCase(pool []val.Value, idx int) core.Result {
	n := len(pool)
	a, b := pool[idx/n], pool[idx%n]
	var res core.Result
	in := fmt.Sprintf("vm-pair(%s, %s)", val.Debug(a), val.Debug(b))
	res.Hash = core.HashString(in)
	calcrun.SetStdin("")
	ses := calcrun.NewSession()
	ses.Exec("0", false)
	ses.M.SetGlobal("xa", calcrun.ToCalc(a))
	ses.M.SetGlobal("xb", calcrun.ToCalc(b))
	fail := func(src, d string) core.Result {
		res.Verdict = core.Violated
		res.Viol = &core.Violation{Monitor: "value-model-through-vm", Detail: fmt.Sprintf("%s with xa=%s xb=%s: %s", src, val.Debug(a), val.Debug(b), d), Input: in}
		return res
	}
	run := func(src string) (calcrun.StmtObs, string) {
		o := ses.Exec(src, true)
		if len(o) != 1 || o[0].Parse != nil {
			return calcrun.StmtObs{}, "not executed as one statement"
		}
		if o[0].Panic != nil {
			return o[0], "panic: " + o[0].Panic.Msg + " at " + o[0].Panic.Site
		}
		if o[0].StepLimit || o[0].Hang != "" {
			return o[0], "does not terminate"
		}
		return o[0], ""
	}
	check := func(src string, want val.Outcome, ob calcrun.StmtObs) string {
		switch want.Kind {
		case val.OVal:
			if ob.Err != "" {
				return fmt.Sprintf("expected %s, got error %q", val.Debug(want.V), ob.Err)
			}
			if !val.Same(ob.Value, want.V) {
				return fmt.Sprintf("expected %s, got %s", val.Debug(want.V), val.Debug(ob.Value))
			}
		case val.OErr:
			if ob.Err != want.Err {
				return fmt.Sprintf("expected %s error, got %q / %s", want.Err, ob.Err, val.Debug(ob.Value))
			}
		case val.OAnyErr:
			if ob.Err == "" || !documentedErrs[ob.Err] {
				return fmt.Sprintf("expected a documented error, got %q / %s", ob.Err, val.Debug(ob.Value))
			}
		case val.OIntOrErr:
			if ob.Err == "" && ob.Value.K != val.Int {
				return fmt.Sprintf("expected an int or an error, got %s", val.Debug(ob.Value))
			}
		}
		return ""
	}
	for _, op := range binOps {
		want := val.Binary(op, a, b)
		// plain form
		src := "xa " + op + " xb"
		ob, bad := run(src)
		if bad == "" {
			bad = check(src, want, ob)
		}
		if bad != "" {
			return fail(src, bad)
		}
		res.Add("vm_plain_forms", 1)
		// temp-register form: nest the operator under one that keeps the result observable
		var tsrc string
		twant := want
		switch {
		case want.Kind == val.OVal && (want.V.K == val.Int || want.V.K == val.Float):
			tsrc = "(xa " + op + " xb) * 1"
			if want.V.K == val.Float {
				twant = val.Outcome{Kind: val.OVal, V: val.FloatV(want.V.F * 1)}
			}
		case want.Kind == val.OVal && want.V.K == val.Bool:
			tsrc = "!(xa " + op + " xb)"
			twant = val.Outcome{Kind: val.OVal, V: val.BoolV(!want.V.B)}
		case want.Kind == val.OVal && want.V.K == val.Str:
			tsrc = "#(xa " + op + " xb)"
			twant = val.Outcome{Kind: val.OVal, V: val.IntV(int64(len(want.V.S)))}
		case want.Kind == val.OVal && want.V.K == val.Arr:
			tsrc = "#(xa " + op + " xb)"
			twant = val.Outcome{Kind: val.OVal, V: val.IntV(int64(len(want.V.A)))}
		case want.Kind == val.OErr || want.Kind == val.OAnyErr:
			tsrc = "#(xa " + op + " xb)"
		default:
			continue
		}
		if a.K == val.Nil && twant.Kind != val.OVal {
			// a nil left operand is reported when it is loaded into the temp register: any documented error
			twant = val.Outcome{Kind: val.OAnyErr}
		}
		ob, bad = run(tsrc)
		if bad == "" {
			bad = check(tsrc, twant, ob)
		}
		if bad != "" {
			return fail(tsrc, bad)
		}
		res.Add("vm_temp_forms", 1)
	}
	// unary operators through compiled programs (how the compiler spells a negation is its business; its
	// value is not): on the variable, on a literal, and as an array element
	if idx%len(pool) == 0 {
		for _, op := range unOps {
			want := val.Unary(op, a)
			srcs := []string{op + "xa", "[" + op + "xa][0]"}
			if la, okl := c11Literal(a); okl {
				srcs = append(srcs, op+la, "[1, "+op+la+"][1]")
			}
			for _, src := range srcs {
				ob, bad := run(src)
				if bad == "" {
					bad = check(src, want, ob)
				}
				if bad != "" {
					return fail(src, bad)
				}
				res.Add("vm_unary_forms", 1)
			}
		}
	}
	// literal forms: the same pair with one or both operands written as literals (constant operands,
	// constant folding) and as the update statements the compiler has shortcuts for (v = v op k, v = k op v),
	// on a global and on a local.
	la, aok := c11Literal(a)
	lb, bok := c11Literal(b)
	for _, op := range binOps {
		want := val.Binary(op, a, b)
		type form struct {
			src      string
			readback string
			pre      func()
		}
		var forms []form
		if bok {
			forms = append(forms, form{src: "xa " + op + " " + lb},
				form{src: "xc = xc " + op + " " + lb, readback: "xc", pre: func() { ses.M.SetGlobal("xc", calcrun.ToCalc(a)) }},
				form{src: "{\nzf = (p) -> {\n p = p " + op + " " + lb + "\n p\n}\nzf(xa)\n}"})
		}
		if aok {
			forms = append(forms, form{src: la + " " + op + " xb"},
				form{src: "xc = " + la + " " + op + " xc", readback: "xc", pre: func() { ses.M.SetGlobal("xc", calcrun.ToCalc(b)) }},
				form{src: "{\nzf = (p) -> {\n p = " + la + " " + op + " p\n p\n}\nzf(xb)\n}"})
		}
		if aok && bok {
			forms = append(forms, form{src: la + " " + op + " " + lb})
		}
		for _, f := range forms {
			if f.pre != nil {
				f.pre()
			}
			ob, bad := run(f.src)
			if bad == "" {
				bad = check(f.src, want, ob)
			}
			if bad != "" {
				return fail(f.src, bad)
			}
			if f.readback != "" && ob.Err == "" && want.Kind == val.OVal {
				rb, bad := run(f.readback)
				if bad == "" {
					bad = check(f.src+" ; "+f.readback, want, rb)
				}
				if bad != "" {
					return fail(f.src+" ; "+f.readback, "the variable read back: "+bad)
				}
			}
			res.Add("vm_literal_forms", 1)
		}
	}
	for _, s := range calcrun.Shapes() {
		res.Tag("shape:" + s)
	}
	res.Verdict = core.Held
	res.Nontrivial = true
	res.Sample = in
	return res
}

// c11Literal writes a value as literal source text, if the grammar can denote
// it exactly (no nil/function/NaN/infinite/negative-zero/huge floats, no
// escapes).
func c11Literal(v val.Value) (string, bool) {
	n, ok := c11LitNode(v)
	if !ok {
		return "", false
	}
	return "(" + ast.Print(n, nil) + ")", true
}

func c11LitNode(v val.Value) (ast.Node, bool) {
	switch v.K {
	case val.Float:
		f := v.F
		if math.IsNaN(f) || math.IsInf(f, 0) || (f == 0 && math.Signbit(f)) || math.Abs(f) >= 1e15 || (f != 0 && math.Abs(f) < 1e-9) {
			return nil, false
		}
		if f < 0 {
			return ast.Unary{Op: "-", X: ast.FloatLit{V: -f}}, true
		}
		return ast.FloatLit{V: f}, true
	case val.Arr:
		es := make([]ast.Node, len(v.A))
		for i, e := range v.A {
			l, ok := c11LitNode(e)
			if !ok {
				return nil, false
			}
			es[i] = l
		}
		return ast.ArrayLit{Elems: es}, true
	case val.Str:
		for i := 0; i < len(v.S); i++ {
			if v.S[i] < 0x20 || v.S[i] == '"' {
				return nil, false
			}
		}
	}
	return literalOf(v)
}
