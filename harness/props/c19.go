//go:build !skip_c19

package props

import (
	"fmt"
	"regexp"
	"strconv"
	"strings"

	"github.com/paulsonkoly/calc/parser"
	"github.com/paulsonkoly/calc/types/bytecode"
	"github.com/paulsonkoly/calc/types/node"

	"verif/ast"
	"verif/calcrun"
	"verif/core"
	"verif/gen"
	"verif/rs"
	"verif/val"
)

// C19 — runtime error reports point at the real failure. Report parser +
// the reference semantics' trace (active calls per coroutine, current
// parameter values, failing operation and its operands) + the step hook's
// last dispatched instruction.

type repFrame struct {
	IP   int
	Name string
	Args []string
}

type parsedReport struct {
	Header   string
	MarkedIP int
	MarkedOp string
	Operands []string
	Contexts [][]repFrame
	GivingUp string
}

var markRe = regexp.MustCompile(`^--> (\d+): 0X[0-9A-F]+ : ([A-Z0-9]+) ([^;]*);(.*)$`)
var frameRe = regexp.MustCompile(`^IP: (\d+) ([a-z]+)\(\) args: (.*)$`)
var argRe = regexp.MustCompile(`arg\[(\d+)\]: `)

func parseReport(rep string) (parsedReport, string) {
	var p parsedReport
	p.MarkedIP = -1
	lines := strings.Split(rep, "\n")
	if len(lines) == 0 || !strings.HasPrefix(lines[0], calcrun.ErrMarker) {
		return p, "report does not start with the error header"
	}
	p.Header = strings.TrimPrefix(lines[0], calcrun.ErrMarker)
	i := 1
	// instruction window; a marked line's operand list may contain line breaks (string operands)
	for i < len(lines) && !strings.HasPrefix(lines[i], "memory context ") {
		l := lines[i]
		if strings.HasPrefix(l, "--> ") {
			// join continuation lines until the next instruction line or the contexts
			j := i + 1
			for j < len(lines) && !strings.HasPrefix(lines[j], "    ") && !strings.HasPrefix(lines[j], "memory context ") {
				l += "\n" + lines[j]
				j++
			}
			m := markRe.FindStringSubmatch(strings.SplitN(l, "\n", 2)[0])
			if m == nil {
				return p, "unparsable marked instruction line: " + l
			}
			p.MarkedIP, _ = strconv.Atoi(m[1])
			p.MarkedOp = m[2]
			ops := strings.TrimPrefix(l[strings.Index(l, ";")+1:], " ")
			p.Operands = []string{ops}
			i = j
			continue
		}
		i++
	}
	for i < len(lines) {
		if !strings.HasPrefix(lines[i], "memory context ") {
			if strings.TrimSpace(lines[i]) == "" {
				i++
				continue
			}
			return p, "unexpected line in context section: " + lines[i]
		}
		i++
		if i >= len(lines) || !strings.HasPrefix(lines[i], "= stack =") {
			return p, "context without stack header"
		}
		i++
		var frames []repFrame
		for i < len(lines) && !strings.HasPrefix(lines[i], "=====") {
			l := lines[i]
			if strings.Contains(l, "giving up") {
				p.GivingUp = l
				i++
				continue
			}
			// argument values may contain line breaks: join until the next IP:/===== line
			j := i + 1
			for j < len(lines) && !strings.HasPrefix(lines[j], "IP: ") && !strings.HasPrefix(lines[j], "=====") {
				l += "\n" + lines[j]
				j++
			}
			first := strings.SplitN(l, "\n", 2)[0]
			m := frameRe.FindStringSubmatch(first)
			if m == nil {
				return p, "unparsable stack line: " + l
			}
			ip, _ := strconv.Atoi(m[1])
			fr := repFrame{IP: ip, Name: m[2]}
			argText := l[strings.Index(l, " args: ")+7:]
			locs := argRe.FindAllStringIndex(argText, -1)
			for k, loc := range locs {
				end := len(argText)
				if k+1 < len(locs) {
					end = locs[k+1][0] - 1
				}
				if end < loc[1] {
					end = loc[1]
				}
				fr.Args = append(fr.Args, argText[loc[1]:end])
			}
			frames = append(frames, fr)
			i = j
		}
		i++ // the ===== line
		p.Contexts = append(p.Contexts, frames)
	}
	return p, ""
}

var listRe = regexp.MustCompile(`^(-->|   ) (\d+): (0X[0-9A-F]+) : (.*)$`)

// disasm renders an instruction word the way the report does, from the
// field accessors (independent of the instruction's own String method).
func disasm(w bytecode.Type) string {
	src := func(kind uint64, addr int) string {
		switch kind {
		case bytecode.AddrDS:
			return fmt.Sprintf("DS[%d] ", addr)
		case bytecode.AddrCls:
			return fmt.Sprintf("CLS[%d] ", addr)
		case bytecode.AddrLcl:
			return fmt.Sprintf("LCL[%d] ", addr)
		case bytecode.AddrGbl:
			return fmt.Sprintf("GBL[%d] ", addr)
		case bytecode.AddrStck:
			return "STCK "
		case bytecode.AddrTmp:
			return "TMP "
		case bytecode.AddrImm:
			return fmt.Sprintf("%d ", addr)
		}
		return ""
	}
	return fmt.Sprintf("%v %s%s%s", w.OpCode(), src(w.Src2(), w.Src2Addr()), src(w.Src1(), w.Src1Addr()), src(w.Src0(), w.Src0Addr()))
}

// checkListing: every listed line shows the instruction that really is at that
// address, disassembled correctly.
func checkListing(rep string, cs []bytecode.Type) string {
	for _, l := range strings.Split(rep, "\n") {
		if strings.HasPrefix(l, "memory context ") {
			break
		}
		m := listRe.FindStringSubmatch(l)
		if m == nil {
			continue
		}
		ip, _ := strconv.Atoi(m[2])
		word, err := strconv.ParseUint(m[3][2:], 16, 64)
		if err != nil || ip < 0 || ip >= len(cs) {
			return "unparsable listing line: " + l
		}
		if bytecode.Type(word) != cs[ip] {
			return fmt.Sprintf("listing line %q: the instruction at %d is %#016X", l, ip, uint64(cs[ip]))
		}
		text := m[4]
		if i := strings.Index(text, ";"); i >= 0 && m[1] == "-->" {
			text = text[:i]
		}
		if want := disasm(cs[ip]); text != want {
			return fmt.Sprintf("listing line %q: the word %s disassembles to %q", l, m[3], want)
		}
	}
	return ""
}

func abbrevV(v val.Value) string {
	s := val.Render(v)
	if len(s) > 20 {
		return s[:17] + "..."
	}
	return s
}

// opcodes that may report the failing operation of the reference
var opFamilies = map[string][]string{
	"+": {"ADD", "ADDTMP", "INC"}, "-": {"SUB", "SUBTMP"}, "*": {"MUL", "MULTMP"}, "/": {"DIV", "DIVTMP"}, "%": {"MOD", "MODTMP"},
	"&": {"AND", "ANDTMP"}, "&&": {"AND", "ANDTMP"}, "|": {"OR", "ORTMP"}, "||": {"OR", "ORTMP"},
	"<": {"LT", "LTTMP"}, ">": {"GT", "GTTMP"}, "<=": {"LE", "LETMP"}, ">=": {"GE", "GETMP"}, "==": {"EQ", "EQTMP"}, "!=": {"NE", "NETMP"},
	"<<": {"LSH", "LSHTMP"}, ">>": {"RSH", "RSHTMP"},
	"unary-": {"MUL", "MULTMP"}, "unary#": {"LEN", "LENTMP"}, "unary!": {"NOT", "NOTTMP", "JMPT", "JMPF"}, "unary~": {"FLIP", "FLIPTMP"},
	"index": {"IX1"}, "index2": {"IX2"}, "call": {"CALL"}, "condition": {"JMPF", "JMPT"}, "assign": {"MOV"}, "aton": {"ATON"}, "read": {"READ"},
}

var errTexts = map[string]string{val.ENil: "nil error", val.EType: "type error", val.EZeroDiv: "division by zero", val.EIndex: "index error", val.EArity: "arity mismatch", val.EConversion: "conversion error"}

// checkReport compares one failing statement's report with the reference.
func checkReport(ob calcrun.StmtObs, w rs.Result) string {
	p, bad := parseReport(ob.Report)
	if bad != "" {
		return bad
	}
	if p.GivingUp != "" {
		return "the backtrace gave up: " + p.GivingUp
	}
	if w.Err == val.ERead {
		if !strings.HasPrefix(p.Header, "read error") {
			return fmt.Sprintf("header %q for a read error", p.Header)
		}
	} else if p.Header != errTexts[w.Err] {
		return fmt.Sprintf("header names %q, the failure is a %s error", p.Header, w.Err)
	}
	if p.MarkedIP != ob.LastIP {
		return fmt.Sprintf("the report marks instruction %d, the VM dispatched %d last", p.MarkedIP, ob.LastIP)
	}
	if fam, ok := opFamilies[w.FailOp]; ok {
		found := false
		for _, a := range w.FailArgs {
			// an absent operand is detected by the instruction that loads it
			if a.K == val.Nil && p.MarkedOp == "MOV" {
				found = true
			}
		}
		for _, f := range fam {
			if f == p.MarkedOp {
				found = true
			}
		}
		if !found {
			return fmt.Sprintf("the marked instruction is %s, the failing operation is %q", p.MarkedOp, w.FailOp)
		}
	}
	// operands: what is listed must be a correctly ordered sub-sequence of what the operation saw
	var seen []string
	if w.FailOp == "unary-" {
		seen = append(seen, "-1")
	}
	for _, a := range w.FailArgs {
		seen = append(seen, abbrevV(a))
	}
	listed := p.Operands[0]
	if listed != "" && w.FailOp != "" {
		// try every ordered subset of seen
		ok := false
		n := len(seen)
		for mask := 1; mask < 1<<n && !ok; mask++ {
			var sub []string
			for k := 0; k < n; k++ {
				if mask&(1<<k) != 0 {
					sub = append(sub, seen[k])
				}
			}
			if strings.Join(sub, ", ") == listed {
				ok = true
			}
		}
		if !ok {
			return fmt.Sprintf("the report lists operands %q, the failing %s saw (%s)", listed, w.FailOp, strings.Join(seen, ", "))
		}
	}
	// backtrace: one block per coroutine, failing one first
	if len(p.Contexts) != len(w.Trace) {
		return fmt.Sprintf("the report shows %d memory contexts, %d are active (failing context and the ones it was forked from)", len(p.Contexts), len(w.Trace))
	}
	for ci, want := range w.Trace {
		got := p.Contexts[ci]
		if len(got) != len(want.Frames) {
			return fmt.Sprintf("context %d lists %d calls, %d are active: reported %v, expected %v", ci, len(got), len(want.Frames), frameNames(got), traceNames(want))
		}
		for fi, wf := range want.Frames {
			gf := got[fi]
			if gf.Name != wf.Name {
				return fmt.Sprintf("context %d frame %d is reported as %s(), it was called as %s()", ci, fi, gf.Name, wf.Name)
			}
			if len(gf.Args) != len(wf.Args) {
				return fmt.Sprintf("context %d frame %d %s() lists %d arguments, it has %d parameters", ci, fi, gf.Name, len(gf.Args), len(wf.Args))
			}
			for ai := range wf.Args {
				if gf.Args[ai] != wf.Args[ai] {
					return fmt.Sprintf("context %d frame %d %s() argument %d is reported as %q, its current value is %q", ci, fi, gf.Name, ai, gf.Args[ai], wf.Args[ai])
				}
			}
		}
	}
	return ""
}

func frameNames(fs []repFrame) []string {
	var r []string
	for _, f := range fs {
		r = append(r, f.Name)
	}
	return r
}

func traceNames(t rs.TraceCtx) []string {
	var r []string
	for _, f := range t.Frames {
		r = append(r, f.Name)
	}
	return r
}

// c19Session builds a session that ends in failures at interesting places.
// c19Hostile is a literal whose rendering is awkward for the report printer:
// long arrays with empty strings up front, format verbs, renderings around the
// 20 character abbreviation limit.
func c19Hostile(r *core.Rng) ast.Node {
	str := func() ast.Node {
		n := r.Range(1, 8)
		s := ""
		for i := 0; i < n; i++ {
			s += []string{"%", "%d", "%s", "%v", "100%", "a", " ", "%!", "%%", "xyz"}[r.Intn(10)]
		}
		return ast.StrLit{V: s}
	}
	switch r.Intn(6) {
	case 5: // more than 20 bytes but fewer than 17 characters
		u := []string{"é", "ü", "日", "本", "ß"}[r.Intn(5)]
		return ast.StrLit{V: []string{"", "a", "ab"}[r.Intn(3)] + strings.Repeat(u, r.Range(7, 16))}
	case 0:
		n := r.Range(8, 12)
		es := make([]ast.Node, n)
		for i := range es {
			switch r.Intn(6) {
			case 0, 1, 2:
				es[i] = ast.StrLit{V: ""}
			case 3:
				es[i] = il(int64(r.Intn(10)))
			case 4:
				es[i] = ast.StrLit{V: "x"}
			default:
				es[i] = ast.ArrayLit{}
			}
		}
		return ast.ArrayLit{Elems: es}
	case 1:
		return str()
	case 2:
		return ast.ArrayLit{Elems: []ast.Node{str(), il(int64(r.Intn(9))), str()}}
	case 3:
		n := r.Range(16, 24)
		b := make([]byte, n)
		for i := range b {
			b[i] = byte('a' + r.Intn(26))
		}
		if r.Bool() {
			b[r.Range(14, n-1)] = '%'
		}
		return ast.StrLit{V: string(b)}
	}
	n := r.Range(5, 9)
	es := make([]ast.Node, n)
	for i := range es {
		es[i] = il(int64(r.Intn(100)))
	}
	return ast.ArrayLit{Elems: es}
}

func c19Session(r *core.Rng) ([]ast.Node, string) {
	switch r.Intn(9) {
	case 8: // one operand absent (an undefined name), the other of any kind, under every binary operator
		op := ast.BinaryOps[r.Intn(len(ast.BinaryOps))]
		other := []ast.Node{il(int64(r.Intn(9))), il(1), ast.FloatLit{V: 2.5}, ast.StrLit{V: "s"}, ast.BoolLit{V: true}, ast.ArrayLit{Elems: []ast.Node{il(1)}}}[r.Intn(6)]
		l, rr := other, ast.Node(nm("znosuch"))
		if r.Chance(1, 3) {
			l, rr = rr, l
		}
		switch r.Intn(4) {
		case 0:
			return []ast.Node{ast.Binary{Op: op, L: l, R: rr}}, "absent-operand"
		case 1: // the temp-register form
			return []ast.Node{ast.Assign{Name: "zv", Value: other}, ast.Binary{Op: "==", L: ast.Binary{Op: op, L: nm("zv"), R: nm("znosuch")}, R: ast.Binary{Op: op, L: nm("zv"), R: nm("zv")}}}, "absent-operand-temp-form"
		case 2: // in a function, the operand a parameter, the absent one a local that is never assigned
			pl, pr := ast.Node(nm("a")), ast.Node(nm("zl"))
			if r.Bool() {
				pl, pr = pr, pl
			}
			return []ast.Node{ast.Assign{Name: "zh", Value: ast.FuncLit{Params: []string{"a", "c"}, Body: ast.Block{Stmts: []ast.Node{ast.If{Cond: nm("c"), Then: ast.Assign{Name: "zl", Value: il(1)}}, ast.Binary{Op: op, L: pl, R: pr}}}}}, icall("zh", other, ast.BoolLit{V: false})}, "absent-operand-in-function"
		default:
			return []ast.Node{ast.Assign{Name: "zh", Value: ast.FuncLit{Params: []string{"a"}, Body: ast.Binary{Op: "+", L: ast.Binary{Op: "*", L: ast.Binary{Op: op, L: nm("a"), R: nm("znosuch")}, R: il(3)}, R: il(2)}}}, icall("zh", other)}, "absent-operand-in-function-temp-form"
		}
	case 7: // a call inside a while condition that fails when the condition is tested again after a body pass
		arr := ast.ArrayLit{Elems: []ast.Node{il(int64(r.Range(2, 9))), il(int64(r.Range(3, 9))), ast.StrLit{V: "x"}}}
		defs := []ast.Node{
			ast.Assign{Name: "zchk", Value: ast.FuncLit{Params: []string{"i", "a"}, Body: ast.Binary{Op: "<", L: nm("i"), R: ast.Index{X: nm("a"), I: nm("i")}}}},
		}
		var run ast.Node
		if r.Bool() {
			run = ast.Assign{Name: "zrun", Value: ast.FuncLit{Params: []string{"a"}, Body: ast.Block{Stmts: []ast.Node{ast.Assign{Name: "i", Value: il(0)}, ast.While{Cond: icall("zchk", nm("i"), nm("a")), Body: ast.Assign{Name: "i", Value: ast.Binary{Op: "+", L: nm("i"), R: il(1)}}}, nm("i")}}}}
		} else { // the loop is the function's value
			run = ast.Assign{Name: "zrun", Value: ast.FuncLit{Params: []string{"a"}, Body: ast.Block{Stmts: []ast.Node{ast.Assign{Name: "i", Value: il(0)}, ast.While{Cond: icall("zchk", nm("i"), nm("a")), Body: ast.Block{Stmts: []ast.Node{ast.Assign{Name: "i", Value: ast.Binary{Op: "+", L: nm("i"), R: il(1)}}, nm("i")}}}}}}}
		}
		return append(defs, run, icall("zrun", arr)), "call-in-while-condition-at-loop-back"
	case 6: // the failing generator runs in a recycled context whose previous generator was dropped while suspended d calls deep
		f, _ := faultExpr(r, r.Intn(6))
		d := int64(r.Range(0, 6))
		defs := []ast.Node{
			ast.Assign{Name: "zdy", Value: ast.FuncLit{Params: []string{"k"}, Body: ast.If{Cond: ast.Binary{Op: "<=", L: nm("k"), R: il(0)}, Then: ast.Block{Stmts: []ast.Node{ast.Yield{X: il(7)}, ast.Yield{X: il(8)}}}, Else: icall("zdy", ast.Binary{Op: "-", L: nm("k"), R: il(1)})}}},
			ast.Assign{Name: "zbadg", Value: ast.FuncLit{Params: []string{"n"}, Body: ast.Block{Stmts: []ast.Node{ast.Yield{X: nm("n")}, ast.Yield{X: f}}}}},
		}
		first := ast.For{Vars: []string{"a", "b"}, Iters: []ast.Node{icall("zdy", il(d)), icall("fromto", il(0), il(1))}, Body: nm("a")}
		var firstAlt ast.Node = ast.For{Vars: []string{"a"}, Iters: []ast.Node{icall("zdy", il(d))}, Body: ast.If{Cond: ast.Binary{Op: "==", L: nm("a"), R: il(7)}, Then: ast.Assign{Name: "seen", Value: nm("a")}}}
		second := ast.For{Vars: []string{"v"}, Iters: []ast.Node{icall("zbadg", il(int64(r.Intn(9))))}, Body: nm("v")}
		var loops []ast.Node
		if r.Bool() {
			loops = []ast.Node{first, second}
		} else {
			loops = []ast.Node{first, firstAlt, second}
		}
		if r.Bool() {
			return append(defs, ast.Block{Stmts: loops}), "recycled-context"
		}
		return append(defs, ast.Assign{Name: "zboth", Value: ast.FuncLit{Params: []string{"q"}, Body: ast.Block{Stmts: loops}}}, icall("zboth", il(1))), "recycled-context-in-function"
	case 5: // callees named through captured variables at the call site
		f, _ := faultExpr(r, r.Intn(6))
		switch r.Intn(3) {
		case 0:
			return []ast.Node{
				ast.Assign{Name: "zbad", Value: ast.FuncLit{Params: []string{"a", "b"}, Body: ast.If{Cond: ast.Binary{Op: ">", L: nm("a"), R: nm("b")}, Then: f, Else: nm("a")}}},
				ast.Assign{Name: "zmk", Value: ast.FuncLit{Params: []string{"fcap"}, Body: ast.FuncLit{Params: []string{"x"}, Body: icall("fcap", nm("x"), il(0))}}},
				ast.Assign{Name: "zh", Value: icall("zmk", nm("zbad"))},
				icall("zh", il(int64(r.Range(1, 9)))),
			}, "captured-callee"
		case 1:
			return []ast.Node{
				ast.Assign{Name: "zouter", Value: ast.FuncLit{Params: []string{"n"}, Body: ast.Block{Stmts: []ast.Node{
					ast.Assign{Name: "zrec", Value: ast.FuncLit{Params: []string{"k"}, Body: ast.If{Cond: ast.Binary{Op: "<=", L: nm("k"), R: il(0)}, Then: f, Else: icall("zrec", ast.Binary{Op: "-", L: nm("k"), R: il(1)})}}},
					icall("zrec", nm("n"))}}}},
				icall("zouter", il(int64(r.Range(0, 5)))),
			}, "captured-recursive-helper"
		default:
			return []ast.Node{
				ast.Assign{Name: "zsrc", Value: ast.FuncLit{Params: []string{"n"}, Body: ast.Block{Stmts: []ast.Node{ast.Yield{X: nm("n")}, ast.Yield{X: f}}}}},
				ast.Assign{Name: "zit", Value: ast.FuncLit{Params: []string{"gcap"}, Body: ast.FuncLit{Params: []string{"m"}, Body: ast.For{Vars: []string{"v"}, Iters: []ast.Node{icall("gcap", nm("m"))}, Body: nm("v")}}}},
				ast.Assign{Name: "zrun", Value: icall("zit", nm("zsrc"))},
				icall("zrun", il(int64(r.Range(1, 9)))),
			}, "captured-iterator"
		}
	case 4: // awkward parameter and operand values
		fault := []ast.Node{
			ast.Binary{Op: "-", L: nm("p"), R: il(1)},
			ast.Index{X: nm("p"), I: il(1000)},
			ast.Binary{Op: "-", L: nm("q"), R: nm("p")},
			ast.Unary{Op: "#", X: ast.Binary{Op: "*", L: nm("p"), R: nm("q")}},
			ast.Binary{Op: "&", L: il(1), R: nm("p")},
			// increments and decrements of a variable in place
			ast.Assign{Name: "p", Value: ast.Binary{Op: "+", L: nm("p"), R: il(1)}},
			ast.Block{Stmts: []ast.Node{ast.Assign{Name: "q", Value: ast.Binary{Op: "-", L: nm("q"), R: il(1)}}, nm("q")}},
		}[r.Intn(7)]
		ss := []ast.Node{ast.Assign{Name: "zh", Value: ast.FuncLit{Params: []string{"p", "q"}, Body: fault}}}
		a, b := c19Hostile(r), c19Hostile(r)
		switch r.Intn(5) {
		case 4: // a global incremented in place
			op := []string{"+", "-"}[r.Intn(2)]
			return []ast.Node{ast.Assign{Name: "zv", Value: a}, ast.Assign{Name: "zv", Value: ast.Binary{Op: op, L: nm("zv"), R: il(1)}}}, "hostile-increment-global"
		case 0:
			return append(ss, icall("zh", a, b)), "hostile-values"
		case 1:
			return append(ss, ast.Assign{Name: "zw", Value: ast.FuncLit{Params: []string{"a", "b"}, Body: icall("zh", nm("b"), nm("a"))}}, icall("zw", a, b)), "hostile-values-nested"
		case 2:
			return append(ss, ast.Assign{Name: "zg", Value: ast.FuncLit{Params: []string{"a", "b"}, Body: ast.Block{Stmts: []ast.Node{ast.Yield{X: il(0)}, icall("zh", nm("a"), nm("b"))}}}},
				ast.For{Vars: []string{"e"}, Iters: []ast.Node{icall("zg", a, b)}, Body: nm("e")}), "hostile-values-in-generator"
		default:
			return append(ss, ast.Assign{Name: "zv", Value: a}, ast.Assign{Name: "zu", Value: b},
				ast.Assign{Name: "zw", Value: ast.FuncLit{Params: []string{"k"}, Body: ast.If{Cond: ast.Binary{Op: "<=", L: nm("k"), R: il(0)}, Then: icall("zh", nm("zv"), nm("zu")), Else: icall("zw", ast.Binary{Op: "-", L: nm("k"), R: il(1)})}}},
				icall("zw", il(int64(r.Range(0, 6))))), "hostile-values-deep"
		}
	case 0:
		ss, where := failingStatements(r)
		if where == "parse-error" {
			ss, where = failingStatements(r)
		}
		return ss, where
	case 1: // fault inside a pipeline stage function, nested generators 1..3 deep
		id := 0
		p := gen.RandPipe(r, r.Range(1, 3), &id)
		f, _ := faultExpr(r, r.Intn(6))
		lib := pipeLibrary(false)
		// a map stage whose function fails at one element
		bad := ast.FuncLit{Params: []string{"e"}, Body: ast.If{Cond: ast.Binary{Op: "==", L: ast.Binary{Op: "%", L: nm("e"), R: il(3)}, R: il(int64(r.Intn(3)))}, Then: f, Else: nm("e")}}
		expr := ast.Call{Fn: "gmap", Args: []ast.Node{il(99), bad, ast.FuncLit{Body: p.Expr()}}}
		consumer := ast.For{Vars: []string{"v"}, Iters: []ast.Node{expr}, Body: ast.Assign{Name: "acc", Value: ast.Binary{Op: "+", L: nm("v"), R: il(1)}}}
		var st ast.Node = consumer
		if r.Bool() {
			return append(append([]ast.Node{}, lib...), ast.Assign{Name: "cons", Value: ast.FuncLit{Params: []string{"k"}, Body: consumer}}, icall("cons", il(int64(r.Intn(9))))), "pipeline-in-function"
		}
		return append(append([]ast.Node{}, lib...), st), "pipeline"
	case 2: // through parameters holding functions and closures
		f, _ := faultExpr(r, r.Intn(6))
		return []ast.Node{
			ast.Assign{Name: "apply", Value: ast.FuncLit{Params: []string{"fn", "x"}, Body: icall("fn", nm("x"))}},
			ast.Assign{Name: "twice", Value: ast.FuncLit{Params: []string{"g", "y"}, Body: icall("apply", nm("g"), icall("apply", nm("g"), nm("y")))}},
			ast.Assign{Name: "mkbad", Value: ast.FuncLit{Params: []string{"lim"}, Body: ast.FuncLit{Params: []string{"z"}, Body: ast.If{Cond: ast.Binary{Op: ">", L: nm("z"), R: nm("lim")}, Then: f, Else: ast.Binary{Op: "+", L: nm("z"), R: il(5)}}}}},
			ast.Assign{Name: "bad", Value: icall("mkbad", il(int64(r.Range(0, 12))))},
			icall("twice", nm("bad"), il(int64(r.Range(0, 9)))),
		}, "function-valued-parameters"
	default: // inside built-ins
		calls := []ast.Node{
			icall("aton", il(5)), icall("aton", ast.StrLit{V: "zz"}),
			ast.For{Vars: []string{"v"}, Iters: []ast.Node{icall("fromto", ast.StrLit{V: "a"}, il(3))}, Body: nm("v")},
			ast.For{Vars: []string{"v"}, Iters: []ast.Node{icall("elems", il(7))}, Body: nm("v")},
			ast.For{Vars: []string{"v"}, Iters: []ast.Node{icall("indices", ast.BoolLit{V: true})}, Body: nm("v")},
			ast.For{Vars: []string{"v", "u"}, Iters: []ast.Node{icall("fromto", il(0), il(3)), icall("elems", il(7))}, Body: nm("v")},
			icall("toa"), icall("write", il(1), il(2)),
		}
		c := calls[r.Intn(len(calls))]
		if r.Bool() {
			return []ast.Node{ast.Assign{Name: "wrap", Value: ast.FuncLit{Params: []string{"q"}, Body: c}}, icall("wrap", il(int64(r.Intn(5))))}, "inside-builtin-in-function"
		}
		return []ast.Node{c}, "inside-builtin"
	}
}

func c19Case(ctx *core.Ctx, idx int) core.Result {
	r := core.CaseRng(ctx.Seed, "C19/reports", idx)
	var res core.Result
	var stmts []ast.Node
	where := ""
	if r.Chance(1, 3) {
		o := gen.DefaultOpts()
		o.MaxDepth = r.Range(2, 4)
		o.Faults = 2
		g := gen.New(r, o)
		stmts = g.Session(r.Range(3, 8))
		where = "typed-session-with-faults"
	} else {
		stmts, where = c19Session(r)
	}
	// later failures in the same session: their reports must not show anything of the earlier ones
	stmts = append(stmts, ast.Assign{Name: "ztail", Value: ast.FuncLit{Params: []string{"q"}, Body: ast.Binary{Op: "/", L: nm("q"), R: il(0)}}},
		icall("ztail", il(int64(r.Intn(9)))), ast.Binary{Op: "%", L: il(5), R: il(0)})
	doOut := idx%2 == 0
	res.Hash = core.Mix(sessionHash(stmts) ^ uint64(idx%2))
	in := map[string]any{"session": sessionText(stmts), "failure_position": where, "repl_mode": doOut}
	ref := rs.New()
	calcrun.SetStdin("one line\n")
	ref.SetStdin("one line\n")
	ses := calcrun.NewSession()
	checked := 0
	// one session in twenty: a statement the compiler refuses (more constants than an operand can address) is
	// entered somewhere in between, the way the REPL/file loop would take it; it must leave no trace in later reports
	refuseAt := -1
	if idx%20 == 7 && len(stmts) > 1 {
		refuseAt = 1 + r.Intn(len(stmts)-1)
		res.Tag("failure-at:after-a-refused-statement")
	}
	for i, st := range stmts {
		if i == refuseAt {
			// (it starts with calls of several names and argument counts: their call sites are compiled, and recorded, before the refusal)
			big := "zbig=[" + strings.Repeat("zkk(1, 2),zqq(),zkk(3, 4, 5),", 8) + strings.Repeat("z,", 32999) + "z]"
			var pan any
			out := ""
			func() {
				defer func() { pan = recover() }()
				out = calcrun.Capture(func() { node.VerifProcessInput(big, parser.Type{}, ses.VM, doOut) })
			}()
			if pan != nil || !strings.HasPrefix(out, "Compiler: ") {
				return core.Result{Verdict: core.Inconclusive, Reason: fmt.Sprintf("the oversized statement was not refused: %v %s", pan, trunc(out, 80))}
			}
		}
		if d := ast.Denotable(st); d != "" {
			return core.Result{Verdict: core.Inconclusive, Reason: "undenotable: " + d}
		}
		w := ref.Exec(st)
		if w.Ambiguous != "" || w.Budget || w.TooBig {
			break
		}
		obs := ses.Exec(ast.Print(st, nil), doOut)
		if len(obs) != 1 || obs[0].Panic != nil || obs[0].Parse != nil || obs[0].StepLimit || obs[0].Hang != "" {
			d := "aborted"
			if len(obs) == 1 && obs[0].Panic != nil {
				d = "panic (possibly while reporting): " + obs[0].Panic.Msg + " at " + obs[0].Panic.Site
			}
			res.Verdict = core.Violated
			res.Viol = &core.Violation{Monitor: "error-report", Detail: fmt.Sprintf("statement %d: %s", i, d), Input: in}
			return res
		}
		ob := obs[0]
		if ob.Err != w.Err {
			res.Verdict = core.Violated
			res.Viol = &core.Violation{Monitor: "differential", Detail: fmt.Sprintf("statement %d: error class %q, reference %q", i, ob.Err, w.Err), Input: in}
			return res
		}
		if w.Err == "" {
			if ob.Report != "" {
				res.Verdict = core.Violated
				res.Viol = &core.Violation{Monitor: "error-report", Detail: fmt.Sprintf("statement %d printed an error report but did not fail", i), Input: in}
				return res
			}
			continue
		}
		bad := checkReport(ob, w)
		if bad == "" {
			bad = checkListing(ob.Report, *ses.CR.CS)
		}
		if bad != "" {
			in["report"] = trunc(ob.Report, 2500)
			res.Verdict = core.Violated
			res.Viol = &core.Violation{Monitor: "error-report", Detail: fmt.Sprintf("statement %d %q: %s", i, trunc(ast.Print(st, nil), 150), bad), Input: in}
			return res
		}
		checked++
		res.Tag("err:" + w.Err)
		res.Tag("op:" + w.FailOp)
		res.SetMax("max_contexts_in_report", len(w.Trace))
		depth := 0
		for _, t := range w.Trace {
			depth += len(t.Frames)
		}
		res.SetMax("max_frames_in_report", depth)
		res.Add("frames_checked", depth)
		if len(w.Trace) > 1 {
			res.Add("reports_from_inside_generators", 1)
		}
	}
	if checked == 0 {
		return core.Result{Verdict: core.Dropped, Reason: "no failing statement reached"}
	}
	res.Add("reports_checked", checked)
	res.Tag("failure-at:" + where)
	res.Verdict = core.Held
	res.Nontrivial = true
	res.Sample = in
	return res
}

func init() {
	register(&core.Property{
		ID:          "C19",
		Rule:        "failing sessions: every runtime error class raised at top level, at call depth 1..200, in while/for bodies, in generators after the k-th yield, in nested generators under a zipped loop, in returned closures, inside pipeline stage functions 1..3 generators deep (at top level and inside a function), through parameters that hold functions and closures (the name in the backtrace is the name used at the call site), inside built-in functions, plus typed sessions with planted faults; REPL and script mode. For each failing statement the printed report is parsed and compared with the reference: header class, marked instruction = last instruction the step hook saw dispatched and of the opcode family of the failing operation, listed operands an ordered subset of the operands the operation saw, one memory-context block per active coroutine (failing one first) each listing the active calls innermost first with call-site name, argument count and current argument values; no 'giving up', no panic. Every case with a checked report is non-trivial; distinct by session and mode.",
		Assumptions: []string{"completeness of the operand list is not demanded (TMP forms list one operand), correctness and order are", "argument values are compared in the report's own 20-character abbreviation"},
		Families: []core.Family{
			{Name: "reports", Count: countFn(12000, 500000), Run: c19Case},
		},
		Floors: []core.Floor{{Key: "reports_checked", Quick: 3000, Thor: 300000}, {Key: "frames_checked", Quick: 8000, Thor: 800000}, {Key: "reports_from_inside_generators", Quick: 500, Thor: 50000}, {Key: "tag:err:", Quick: 7, Thor: 7}, {Key: "tag:op:", Quick: 12, Thor: 12}, {Key: "tag:failure-at:", Quick: 23, Thor: 23}},
	})
}
