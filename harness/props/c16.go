package props

import (
	"fmt"
	"os"
	"path/filepath"
	"strings"
	"sync"
	"time"

	"github.com/paulsonkoly/calc/parser"
	"github.com/paulsonkoly/calc/types/node"

	"verif/ast"
	"verif/calcrun"
	"verif/core"
	"verif/gen"
	"verif/rs"
	"verif/val"
)

// C16 — all three run modes execute the same program the same way.
// Metamorphic monitor across real processes of the freshly built cmd/calc:
// the stdout of `calc -eval S`, of S piped into the REPL and of `calc file`
// is compared byte for byte with what the reference semantics says each mode
// must print (so the modes are compared with each other through one
// expectation), and file mode is compared with the in-process
// statement-by-statement execution of the same statements.

// replBanner is what the REPL prints before the first prompt. It is not part of the property: it is
// learned from the binary under test (a REPL run with empty input), once per worker.
var (
	replBannerOnce sync.Once
	replBannerText = "calc repl\n"
)

func replBannerOf() string {
	replBannerOnce.Do(func() {
		if bin := calcrun.CalcBinary(); bin != "" {
			p := calcrun.RunCalc(bin, nil, []byte(""), "", 20*time.Second)
			if !p.TimedOut && p.Exit == 0 {
				replBannerText = p.Stdout
			}
		}
	})
	return replBannerText
}

func scratchFile(name string, content string) (string, func()) {
	dir := os.Getenv("VERIF_DIR")
	if dir == "" {
		dir = os.TempDir()
	} else {
		dir = filepath.Join(dir, "work")
	}
	f, err := os.CreateTemp(dir, name)
	if err != nil {
		panic(err)
	}
	f.WriteString(content)
	f.Close()
	return f.Name(), func() { os.Remove(f.Name()) }
}

// scriptStatement renders one statement for a script, possibly decorated with
// comments/strings that contain structural characters.
func c16Layout(r *core.Rng) *ast.Layout {
	l := &ast.Layout{Rnd: r.Intn}
	if r.Chance(1, 2) {
		l.BlankLines = r.Range(10, 40)
	}
	if r.Chance(1, 2) {
		l.ArrayNewlines = r.Range(10, 50)
	}
	if r.Chance(1, 2) {
		l.Comments = r.Range(10, 60)
	}
	if r.Chance(1, 3) {
		l.BraceSingles = r.Range(10, 60)
	}
	if r.Chance(1, 3) {
		l.RandomBlanks = true
	}
	return l
}

var trickyStrings = []string{"a\n\nb", "x\n   \ny", "\n\n", "p; q", "; r\"s", "{", "}", "[", "]", "}{", "][", "\"", "a\"b", ";", "; not a comment {", "{\n", "line one\nline two", "\n}", "[\n1,\n2", "x = \"", "->", "if {", "ok"}

func c16Script(ctx *core.Ctx, idx int) core.Result {
	r := core.CaseRng(ctx.Seed, "C16/script", idx)
	var res core.Result
	bin := calcrun.CalcBinary()
	if bin == "" {
		return core.Result{Verdict: core.Inconclusive, Reason: "no calc binary (VERIF_CALC_BIN)"}
	}
	o := gen.DefaultOpts()
	o.MaxDepth = r.Range(1, 3)
	o.NoErrors = true
	g := gen.New(r, o)
	var stmts []ast.Node
	n := r.Range(2, 7)
	for i := 0; i < n; i++ {
		switch r.Intn(7) {
		case 0: // strings with structural characters, written and concatenated
			s := trickyStrings[r.Intn(len(trickyStrings))]
			stmts = append(stmts, icall("write", ast.Binary{Op: "+", L: ast.StrLit{V: s}, R: ast.StrLit{V: "|"}}))
		case 1:
			name := g.FreshName()
			g.Globals = append(g.Globals, gen.Var{Name: name, T: gen.Str})
			stmts = append(stmts, ast.Assign{Name: name, Value: ast.StrLit{V: trickyStrings[r.Intn(len(trickyStrings))]}})
			stmts = append(stmts, icall("write", ast.Unary{Op: "#", X: nm(name)}))
		case 2: // a very long line (longer than any reader buffer)
			name := g.FreshName()
			g.Globals = append(g.Globals, gen.Var{Name: name, T: gen.Str})
			n := []int{4000, 4089, 4090, 4096, 5000, 9000}[r.Intn(6)]
			stmts = append(stmts, ast.Assign{Name: name, Value: ast.StrLit{V: strings.Repeat("a", n)}})
			stmts = append(stmts, icall("write", ast.Unary{Op: "#", X: nm(name)}))
		default:
			st := g.TopStmt()
			stmts = append(stmts, st)
		}
		if r.Chance(1, 2) {
			stmts = append(stmts, icall("write", ast.StrLit{V: fmt.Sprintf("<%d>", i)}))
		}
	}
	// raw statements with backslashes in string literals (the README does not define them, so their
	// expectation comes from entering them one by one in-process, not from the reference)
	var raw []string
	if r.Chance(1, 4) {
		for k := r.Range(1, 3); k > 0; k-- {
			raw = append(raw, []string{"write(\"C:\\\\\")", "write(\"a\\\\\" + \"|\")", "zb = \"\\\\\"", "write(\"x\\ty\\\\\")", "write(\"q\\\\\") ; c \" {"}[r.Intn(5)])
			raw = append(raw, fmt.Sprintf("write(\"<r%d>\")", k))
		}
	}
	if r.Chance(1, 5) {
		// multi-line strings whose lines end in a backslash, the next line starting with the closing quote or a backslash
		raw = append(raw, []string{"zq = \"abc\\\n\"", "write(\"x\\\n\\\n\" + \"|\")", "zq = \"l1\\\\\\\n\" + \"t\"", "write(\"a\\\n\\\\\")"}[r.Intn(4)])
		raw = append(raw, "write(\"<m>\")", "write(\"<n>\")")
	}
	if r.Chance(1, 6) {
		// continuation lines of a multi-line string that start with an escaped quote, with brackets behind it; a
		// carriage return in front of the line break inside a string; a line far longer than any line buffer
		switch r.Intn(4) {
		case 0:
			raw = append(raw, "zq = \"a\n\\\" {\nb\"", "write(toa(#zq))")
		case 1:
			raw = append(raw, "zq = \"x\n\\\"w\\\" [ ;\ny\"", "write(toa(#zq))")
		case 2:
			raw = append(raw, "zq = \"ab\r\ncd\"", "write(toa(#zq))")
		default:
			raw = append(raw, "zq = \""+strings.Repeat("k", r.Range(66000, 90000))+"\"", "write(toa(#zq))")
		}
		raw = append(raw, "write(\"<o>\")")
	}
	// a script that ends, without a final line break, in a line of a single character (the closing brace of a block)
	endsInBrace := r.Chance(1, 5)
	if endsInBrace {
		raw = append(raw, []string{"{\n write(\"<end>\")\n 0\n}", "if true {\n write(\"<end>\")\n}", "zlast = (q) -> {\n q + 1\n}", "for zl <- fromto(0, 2) {\n write(zl)\n}"}[r.Intn(4)])
	}
	// reference
	ref := rs.New()
	want := make([]rs.Result, len(stmts))
	for i, st := range stmts {
		if d := ast.Denotable(st); d != "" {
			return core.Result{Verdict: core.Inconclusive, Reason: "undenotable: " + d}
		}
		want[i] = ref.Exec(st)
		if want[i].Ambiguous != "" || want[i].Budget || want[i].TooBig || want[i].Err != "" {
			return core.Result{Verdict: core.Dropped, Reason: "statement fails or is outside the agreed region"}
		}
	}
	lay := c16Layout(r)
	texts := make([]string, len(stmts))
	for i, st := range stmts {
		texts[i] = ast.Print(st, lay)
		if r.Chance(1, 5) {
			texts[i] += " ; trailing comment with { [ \" and }"
		}
	}
	texts = append(texts, raw...)
	var script strings.Builder
	for i, t := range texts {
		if r.Chance(1, 6) {
			script.WriteString("\n")
		}
		if r.Chance(1, 8) {
			script.WriteString("; a comment line { [ \"\n")
		}
		script.WriteString(t)
		if i < len(texts)-1 || (r.Bool() && !endsInBrace) {
			script.WriteString("\n")
		}
	}
	res.Hash = core.HashString(script.String())
	in := map[string]any{"script": script.String()}
	fail := func(mon, d string) core.Result {
		res.Verdict = core.Violated
		res.Viol = &core.Violation{Monitor: mon, Detail: d, Input: in}
		return res
	}
	wantFile := ""
	wantRepl := replBannerOf()
	for i := range stmts {
		wantFile += want[i].Out
		wantRepl += want[i].Out + "> " + val.Display(want[i].Value) + "\n"
	}
	if len(raw) > 0 {
		// in-process, one statement at a time, REPL mode
		calcrun.SetStdin("")
		s2 := calcrun.NewSession()
		for _, t := range raw {
			for _, ob := range s2.Exec(t, true) {
				if ob.Panic != nil || ob.Parse != nil || ob.StepLimit || ob.Hang != "" || ob.Err != "" {
					return core.Result{Verdict: core.Inconclusive, Reason: "raw statement failed in-process"}
				}
				wantFile += ob.Out
				wantRepl += ob.Out + "> " + val.Display(ob.Value) + "\n"
			}
		}
		res.Tag("script:backslash-strings")
	}
	// file mode
	path, rm := scratchFile("c16-*.calc", script.String())
	defer rm()
	pf := calcrun.RunCalc(bin, []string{path}, nil, "", 20*time.Second)
	if pf.TimedOut {
		return core.Result{Verdict: core.Inconclusive, Reason: "watchdog (file mode)"}
	}
	if pf.Exit != 0 || strings.Contains(pf.Stderr, "panic:") || strings.Contains(pf.Stderr, "fatal error") {
		return fail("exit-status", fmt.Sprintf("file mode exited %d, stderr %q", pf.Exit, trunc(pf.Stderr, 300)))
	}
	if pf.Stdout != wantFile {
		return fail("mode-equivalence", fmt.Sprintf("file mode printed %q, statement-by-statement evaluation prints %q", trunc(pf.Stdout, 400), trunc(wantFile, 400)))
	}
	res.Add("file_runs", 1)
	// in-process, statement by statement, script mode
	calcrun.SetStdin("")
	ses := calcrun.NewSession()
	inproc := ""
	for _, t := range texts {
		for _, ob := range ses.Exec(t, false) {
			if ob.Panic != nil || ob.Parse != nil || ob.StepLimit || ob.Hang != "" || ob.Err != "" {
				return fail("mode-equivalence", fmt.Sprintf("in-process execution of %q failed: %q", trunc(t, 100), ob.Err))
			}
			inproc += ob.Out
		}
	}
	if inproc != pf.Stdout {
		return fail("mode-equivalence", fmt.Sprintf("file mode printed %q, entering the statements one by one prints %q", trunc(pf.Stdout, 400), trunc(inproc, 400)))
	}
	// REPL mode: the same text piped in. Not for texts the line editor itself changes or chokes on: it turns a
	// carriage return into a line break, and it needs ten seconds and more for a line of 64 KiB
	if strings.Contains(script.String(), "\r") || len(script.String()) > 60000 {
		res.Tag("script:no-repl-leg")
	} else {
		pr := calcrun.RunCalc(bin, nil, []byte(script.String()+"\n"), "", 20*time.Second)
		if pr.TimedOut {
			return core.Result{Verdict: core.Inconclusive, Reason: "watchdog (repl mode)"}
		}
		if pr.Exit != 0 {
			return fail("exit-status", fmt.Sprintf("REPL mode exited %d, stderr %q", pr.Exit, trunc(pr.Stderr, 300)))
		}
		if pr.Stdout != wantRepl {
			return fail("mode-equivalence", fmt.Sprintf("REPL printed %q, expected %q", trunc(pr.Stdout, 500), trunc(wantRepl, 500)))
		}
		res.Add("repl_runs", 1)
	}
	// -eval of one statement at a time on fresh processes is only possible for self-contained
	// statements: take the statements up to the first one and check it alone
	first := texts[0]
	pe := calcrun.RunCalc(bin, []string{"-eval", first}, nil, "", 20*time.Second)
	if pe.TimedOut {
		return core.Result{Verdict: core.Inconclusive, Reason: "watchdog (eval mode)"}
	}
	wantEval := want[0].Out + val.Render(want[0].Value) + "\n"
	if pe.Exit != 0 {
		return fail("exit-status", fmt.Sprintf("-eval exited %d, stderr %q", pe.Exit, trunc(pe.Stderr, 300)))
	}
	if pe.Stdout != wantEval {
		return fail("mode-equivalence", fmt.Sprintf("-eval %q printed %q, expected %q", trunc(first, 200), trunc(pe.Stdout, 300), trunc(wantEval, 300)))
	}
	res.Add("eval_runs", 1)
	if strings.Contains(script.String(), "\"") {
		res.Tag("script:strings")
	}
	if strings.Contains(script.String(), ";") {
		res.Tag("script:comments")
	}
	if strings.Contains(script.String(), "{\n") {
		res.Tag("script:multi-line-block")
	}
	if !strings.HasSuffix(script.String(), "\n") {
		res.Tag("script:no-final-newline")
	}
	res.Verdict = core.Held
	res.Nontrivial = len(stmts) >= 2
	res.Sample = in
	return res
}

// c16Eval: self-contained single statements (blocks that define and use
// functions, closures, loops) in all three modes.
func c16Eval(ctx *core.Ctx, idx int) core.Result {
	r := core.CaseRng(ctx.Seed, "C16/eval", idx)
	var res core.Result
	bin := calcrun.CalcBinary()
	if bin == "" {
		return core.Result{Verdict: core.Inconclusive, Reason: "no calc binary (VERIF_CALC_BIN)"}
	}
	o := gen.DefaultOpts()
	o.MaxDepth = r.Range(1, 4)
	o.NoErrors = true
	g := gen.New(r, o)
	// one block: definitions, then a written result
	var ss []ast.Node
	for k := r.Range(1, 4); k > 0; k-- {
		st := g.TopStmt()
		if b, ok := st.(ast.Block); ok {
			ss = append(ss, b.Stmts...)
		} else {
			ss = append(ss, st)
		}
	}
	t := []gen.Ty{gen.Int, gen.Str, gen.ArrOf(gen.Int), gen.Bool}[r.Intn(4)]
	ss = append(ss, icall("write", toa(g.Expr(t, 2))))
	var stmt ast.Node = ast.Block{Stmts: ss}
	if d := ast.Denotable(stmt); d != "" {
		return core.Result{Verdict: core.Inconclusive, Reason: "undenotable: " + d}
	}
	ref := rs.New()
	w := ref.Exec(stmt)
	if w.Ambiguous != "" || w.Budget || w.TooBig || w.Err != "" {
		return core.Result{Verdict: core.Dropped, Reason: "statement fails or is outside the agreed region"}
	}
	src := ast.Print(stmt, c16Layout(r))
	res.Hash = core.HashString(src)
	in := map[string]any{"statement": src}
	fail := func(mon, d string) core.Result {
		res.Verdict = core.Violated
		res.Viol = &core.Violation{Monitor: mon, Detail: d, Input: in}
		return res
	}
	outs := map[string]string{}
	pe := calcrun.RunCalc(bin, []string{"-eval", src}, nil, "", 20*time.Second)
	path, rm := scratchFile("c16-*.calc", src+"\n")
	defer rm()
	pf := calcrun.RunCalc(bin, []string{path}, nil, "", 20*time.Second)
	pr := calcrun.RunCalc(bin, nil, []byte(src+"\n"), "", 20*time.Second)
	for name, p := range map[string]calcrun.ProcResult{"-eval": pe, "file": pf, "repl": pr} {
		if p.TimedOut {
			return core.Result{Verdict: core.Inconclusive, Reason: "watchdog"}
		}
		if p.Exit != 0 {
			return fail("exit-status", fmt.Sprintf("%s mode exited %d, stderr %q", name, p.Exit, trunc(p.Stderr, 300)))
		}
	}
	outs["-eval"] = strings.TrimSuffix(pe.Stdout, val.Render(w.Value)+"\n")
	outs["file"] = pf.Stdout
	outs["repl"] = strings.TrimSuffix(strings.TrimPrefix(pr.Stdout, replBannerOf()), "> "+val.Display(w.Value)+"\n")
	for _, m := range []string{"-eval", "file", "repl"} {
		if outs[m] != w.Out {
			return fail("mode-equivalence", fmt.Sprintf("%s mode printed %q (raw %q), the statement prints %q", m, trunc(outs[m], 300), trunc(map[string]string{"-eval": pe.Stdout, "file": pf.Stdout, "repl": pr.Stdout}[m], 300), trunc(w.Out, 300)))
		}
	}
	res.Add("eval_runs", 1)
	res.Add("file_runs", 1)
	res.Add("repl_runs", 1)
	res.Verdict = core.Held
	res.Nontrivial = true
	res.Sample = in
	return res
}

// c16EvalMulti: several statements side by side in one input line (the only way -eval takes more than one
// statement), optionally with a statement the compiler refuses in the middle; -eval, the REPL and a one-line
// script file must each print what that mode prints for the statements one by one.
func c16EvalMulti(ctx *core.Ctx, idx int) core.Result {
	r := core.CaseRng(ctx.Seed, "C16/evalmulti", idx)
	var res core.Result
	bin := calcrun.CalcBinary()
	if bin == "" {
		return core.Result{Verdict: core.Inconclusive, Reason: "no calc binary (VERIF_CALC_BIN)"}
	}
	o := gen.DefaultOpts()
	o.MaxDepth = r.Range(1, 3)
	o.NoErrors = true
	g := gen.New(r, o)
	var stmts []ast.Node
	for k := r.Range(2, 5); k > 0; k-- {
		if r.Chance(1, 3) {
			stmts = append(stmts, icall("write", ast.StrLit{V: fmt.Sprintf("<w%d>", k)}))
		} else {
			stmts = append(stmts, g.TopStmt())
		}
	}
	ref := rs.New()
	var texts []string
	var want []rs.Result
	for _, st := range stmts {
		if d := ast.Denotable(st); d != "" {
			return core.Result{Verdict: core.Inconclusive, Reason: "undenotable: " + d}
		}
		w := ref.Exec(st)
		if w.Ambiguous != "" || w.Budget || w.TooBig || w.Err != "" {
			return core.Result{Verdict: core.Dropped, Reason: "statement fails or is outside the agreed region"}
		}
		want = append(want, w)
		texts = append(texts, ast.Print(st, nil))
	}
	// a statement the compiler refuses (more constants than an operand can address), one case in six
	refusedAt, refusedMsg := -1, ""
	if idx%6 == 5 {
		big := "zbig=[" + strings.Repeat("z,", 32999) + "z]" // 66 KB: one command line argument holds at most 128 KB
		calcrun.SetStdin("")
		s2 := calcrun.NewSession()
		refusedMsg = calcrun.Capture(func() { node.VerifProcessInput(big, parser.Type{}, s2.VM, true) })
		if !strings.HasPrefix(refusedMsg, "Compiler: ") {
			return core.Result{Verdict: core.Inconclusive, Reason: "the oversized statement was not refused in-process: " + trunc(refusedMsg, 100)}
		}
		refusedAt = r.Intn(len(texts))
		texts = append(texts[:refusedAt], append([]string{big}, texts[refusedAt:]...)...)
		res.Tag("evalmulti:refused-statement")
	}
	line := strings.Join(texts, " ")
	// the juxtaposition must parse into the very same statements
	nodes, perr, pan, hang, _, _ := calcrun.Parse(line)
	if perr != nil || pan != nil || hang != "" || len(nodes) != len(texts) {
		return core.Result{Verdict: core.Dropped, Reason: "juxtaposition does not parse into the same statements"}
	}
	for i := range nodes {
		one, perr1, _, _, _, _ := calcrun.Parse(texts[i])
		if perr1 != nil || len(one) != 1 || ast.Sexp(calcrun.FromNode(nodes[i])) != ast.Sexp(calcrun.FromNode(one[0])) {
			return core.Result{Verdict: core.Dropped, Reason: "juxtaposition does not parse into the same statements"}
		}
	}
	wantEval, wantRepl, wantFile := "", replBannerOf(), ""
	k := 0
	for i := range texts {
		if i == refusedAt {
			wantEval += strings.TrimPrefix(refusedMsg, "Compiler: ") // -eval prints the bare error
			wantRepl += refusedMsg
			wantFile += refusedMsg
			continue
		}
		w := want[k]
		k++
		wantEval += w.Out + val.Render(w.Value) + "\n"
		wantRepl += w.Out + "> " + val.Display(w.Value) + "\n"
		wantFile += w.Out
	}
	res.Hash = core.HashString(line)
	shown := line
	if refusedAt >= 0 {
		shown = strings.Replace(line, strings.Repeat("z,", 32999), "z,...x32999...", 1)
	}
	in := map[string]any{"line": trunc(shown, 3000)}
	fail := func(mon, d string) core.Result {
		res.Verdict = core.Violated
		res.Viol = &core.Violation{Monitor: mon, Detail: d, Input: in}
		return res
	}
	pe := calcrun.RunCalc(bin, []string{"-eval", line}, nil, "", 30*time.Second)
	path, rm := scratchFile("c16-*.calc", line+"\n")
	defer rm()
	pf := calcrun.RunCalc(bin, []string{path}, nil, "", 30*time.Second)
	// (the REPL's line editor needs ~10 s for a 66 KB line: the refused-statement cases run -eval and file mode only)
	pr := calcrun.ProcResult{Stdout: wantRepl}
	if refusedAt < 0 {
		pr = calcrun.RunCalc(bin, nil, []byte(line+"\n"), "", 30*time.Second)
	}
	for _, m := range []struct {
		name string
		p    calcrun.ProcResult
		want string
	}{{"-eval", pe, wantEval}, {"file", pf, wantFile}, {"repl", pr, wantRepl}} {
		if m.p.TimedOut {
			return core.Result{Verdict: core.Inconclusive, Reason: "watchdog"}
		}
		if m.p.Exit != 0 {
			return fail("exit-status", fmt.Sprintf("%s mode exited %d, stderr %q", m.name, m.p.Exit, trunc(m.p.Stderr, 300)))
		}
		if m.p.Stdout != m.want {
			return fail("mode-equivalence", fmt.Sprintf("%s mode printed %q for the %d statements of the line; one by one they print %q", m.name, trunc(m.p.Stdout, 400), len(texts), trunc(m.want, 400)))
		}
	}
	res.Add("eval_runs", 1)
	res.Add("file_runs", 1)
	res.Add("repl_runs", 1)
	res.Add("multi_statement_lines", 1)
	res.Verdict = core.Held
	res.Nontrivial = true
	res.Sample = in
	return res
}

func init() {
	register(&core.Property{
		ID:          "C16",
		Rule:        "(1) script: scripts of 2..14 top-level statements mixing one-line statements, multi-line blocks, multi-line array literals and strings, strings and comments containing { } [ ] \" \\\" ; and line breaks, comment-only and blank lines, random layout (comments before line breaks, blank lines in blocks, newlines in arrays, random blanks), with and without a final newline; the real binary is run in file mode (stdout compared with the reference's statement-by-statement output and with the in-process statement-by-statement script-mode execution), in REPL mode with the text piped in (stdout compared byte for byte with banner + output + '> value' lines from the reference), and -eval on the first statement; exit status must be 0. (2) eval: one self-contained block (function/closure/generator definitions and uses, ending in a write) in all three modes. (3) evalmulti: 2..5 statements side by side on one line (the only way -eval takes several), one case in six with a statement the compiler refuses (33000 constants) among them, in all three modes against the per-statement expectations (every statement echoed in -eval and the REPL, the refusal reported and the rest carried on with). non-trivial = >= 2 statements / every eval case; distinct by script text.",
		Assumptions: []string{"scripts contain no runtime errors (reports embed pointer values) and end every statement at a line break; a carriage return occurs only inside a string literal, and such scripts (like lines beyond 60 000 bytes) skip the REPL leg: the line editor turns CR into a line break and needs seconds per 64 KiB line", "REPL result quoting of strings (Display) is the documented difference between the modes"},
		Families: []core.Family{
			{Name: "script", Count: countFn(1200, 20000), Run: c16Script},
			{Name: "eval", Count: countFn(800, 15000), Run: c16Eval},
			{Name: "evalmulti", Count: countFn(360, 12000), Run: c16EvalMulti},
		},
		Sanitize: []string{"script"},
		Floors:   []core.Floor{{Key: "file_runs", Quick: 400, Thor: 20000}, {Key: "repl_runs", Quick: 400, Thor: 20000}, {Key: "eval_runs", Quick: 400, Thor: 20000}, {Key: "tag:script:", Quick: 5, Thor: 5}},
	})
	core.CaseSeconds["C16/script"] = 1
	core.CaseSeconds["C16/eval"] = 1
	core.MaxInconclusivePct["C16"] = 5
}
