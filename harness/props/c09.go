package props

import (
	"fmt"

	"github.com/paulsonkoly/calc/flags"
	"github.com/paulsonkoly/calc/parser"
	"github.com/paulsonkoly/calc/types/node"
	"github.com/paulsonkoly/calc/vm"

	"verif/ast"
	"verif/calcrun"
	"verif/core"
	"verif/gen"
	"verif/rs"
)

// C09 — evaluation leaves the machine clean.
// (1) residue monitor: (sp, frames, closures, live contexts) after every
//     statement equals the values before it, on typed and directed sessions in
//     both compile modes (differential against the reference rides along);
// (2) N-scaling monitor: loop-bearing programs are instantiated with
//     N in {3, 30, 300} iterations; the maximum stack pointer of the main and of
//     the iterator memories and the maximum number of live contexts sampled at
//     loop back-edges must be identical for the three runs.

const c09Magic = 777001

func substInt(n ast.Node, from, to int64) ast.Node {
	switch x := n.(type) {
	case ast.IntLit:
		if x.V == from {
			return ast.IntLit{V: to}
		}
		return x
	case ast.Unary:
		return ast.Unary{Op: x.Op, X: substInt(x.X, from, to)}
	case ast.Binary:
		return ast.Binary{Op: x.Op, L: substInt(x.L, from, to), R: substInt(x.R, from, to)}
	case ast.Index:
		return ast.Index{X: substInt(x.X, from, to), I: substInt(x.I, from, to)}
	case ast.Slice:
		return ast.Slice{X: substInt(x.X, from, to), I: substInt(x.I, from, to), J: substInt(x.J, from, to)}
	case ast.ArrayLit:
		return ast.ArrayLit{Elems: substList(x.Elems, from, to)}
	case ast.Call:
		return ast.Call{Fn: x.Fn, Args: substList(x.Args, from, to)}
	case ast.FuncLit:
		return ast.FuncLit{Params: x.Params, Body: substInt(x.Body, from, to)}
	case ast.Assign:
		return ast.Assign{Name: x.Name, Value: substInt(x.Value, from, to)}
	case ast.If:
		var e ast.Node
		if x.Else != nil {
			e = substInt(x.Else, from, to)
		}
		return ast.If{Cond: substInt(x.Cond, from, to), Then: substInt(x.Then, from, to), Else: e}
	case ast.While:
		return ast.While{Cond: substInt(x.Cond, from, to), Body: substInt(x.Body, from, to)}
	case ast.For:
		return ast.For{Vars: x.Vars, Iters: substList(x.Iters, from, to), Body: substInt(x.Body, from, to)}
	case ast.Return:
		return ast.Return{X: substInt(x.X, from, to)}
	case ast.Yield:
		return ast.Yield{X: substInt(x.X, from, to)}
	case ast.Block:
		return ast.Block{Stmts: substList(x.Stmts, from, to)}
	}
	return n
}

func substList(xs []ast.Node, from, to int64) []ast.Node {
	r := make([]ast.Node, len(xs))
	for i, x := range xs {
		r[i] = substInt(x, from, to)
	}
	return r
}

// scalingProgram builds a session whose last statement runs a loop of
// c09Magic iterations; the loop kind and the last statement of its body vary.
func scalingProgram(r *core.Rng) ([]ast.Node, string) {
	o := gen.DefaultOpts()
	o.MaxDepth = r.Range(1, 3)
	o.LoopBound = 3
	o.NoErrors = true
	o.Writes = false
	g := gen.New(r, o)
	var pre []ast.Node
	for k := r.Range(0, 3); k > 0; k-- {
		pre = append(pre, g.TopStmt())
	}
	magic := ast.IntLit{V: c09Magic}
	zi := ast.Name{N: "zi"}
	never := func() ast.Node { return ast.Binary{Op: "<", L: zi, R: ast.IntLit{V: 0}} }
	always := func() ast.Node { return ast.Binary{Op: ">=", L: zi, R: ast.IntLit{V: 0}} }
	// guard trees: if / if-else nests whose leaves are never-taken returns (else-less or not), plain values,
	// assignments and empty loops; every arm is taken or not by construction, none ever returns
	var guard func(d int) ast.Node
	guard = func(d int) ast.Node {
		cond := func() ast.Node {
			switch r.Intn(3) {
			case 0:
				return never()
			case 1:
				return always()
			}
			return g.Expr(gen.Bool, 1)
		}
		k := r.Intn(8)
		if d <= 0 && k >= 2 && k <= 4 {
			k = 5 + r.Intn(3)
		}
		switch k {
		case 0:
			return ast.If{Cond: never(), Then: ast.Return{X: ast.IntLit{V: int64(r.Intn(9))}}}
		case 1:
			return ast.If{Cond: always(), Then: g.Expr(gen.Int, 1)}
		case 2:
			return ast.If{Cond: cond(), Then: guard(d - 1), Else: guard(d - 1)}
		case 3:
			return ast.If{Cond: cond(), Then: guard(d - 1)}
		case 4:
			return ast.If{Cond: never(), Then: ast.Return{X: ast.IntLit{V: 1}}, Else: guard(d - 1)}
		case 5:
			return ast.Assign{Name: "zq", Value: g.Expr(gen.Int, 1)}
		case 6:
			return ast.While{Cond: ast.BoolLit{V: false}, Body: ast.IntLit{V: 1}}
		default:
			return g.Expr(gen.Int, 1)
		}
	}
	bodyStmt := func() ast.Node {
		// every statement form as the last statement of the loop body
		switch r.Intn(18) {
		case 17: // a yield nobody consumes, its operand computed
			return ast.Yield{X: []ast.Node{ast.Binary{Op: "*", L: zi, R: ast.IntLit{V: 2}}, ast.ArrayLit{Elems: []ast.Node{zi}}, ast.Call{Fn: "toa", Args: []ast.Node{zi}}, zi}[r.Intn(4)]}
		case 13, 14, 15, 16:
			return guard(r.Range(1, 3))
		case 9: // if/else with exactly one (never taken) returning branch, discarded
			return ast.If{Cond: ast.Binary{Op: "<", L: ast.Name{N: "zi"}, R: ast.IntLit{V: 0}}, Then: ast.Return{X: ast.IntLit{V: 1}}, Else: g.Expr(gen.Int, 1)}
		case 10:
			return ast.If{Cond: ast.Binary{Op: ">=", L: ast.Name{N: "zi"}, R: ast.IntLit{V: 0}}, Then: g.Expr(gen.Int, 1), Else: ast.Return{X: ast.IntLit{V: 1}}}
		case 11: // one-armed if with a never taken return
			return ast.If{Cond: ast.Binary{Op: "<", L: ast.Name{N: "zi"}, R: ast.IntLit{V: 0}}, Then: ast.Return{X: ast.IntLit{V: 1}}}
		case 12: // nested: if/else in the else arm
			return ast.If{Cond: ast.Binary{Op: "<", L: ast.Name{N: "zi"}, R: ast.IntLit{V: 0}}, Then: ast.IntLit{V: 3}, Else: ast.If{Cond: ast.Binary{Op: "<", L: ast.Name{N: "zi"}, R: ast.IntLit{V: 0}}, Then: ast.Return{X: ast.IntLit{V: 2}}, Else: ast.IntLit{V: 4}}}
		case 0:
			return g.Expr(gen.Int, 2)
		case 1:
			return ast.If{Cond: g.Expr(gen.Bool, 1), Then: g.Expr(gen.Int, 1)}
		case 2:
			return ast.If{Cond: g.Expr(gen.Bool, 1), Then: ast.IntLit{V: 5}}
		case 3:
			return ast.If{Cond: g.Expr(gen.Bool, 1), Then: g.Expr(gen.Int, 1), Else: g.Expr(gen.Int, 1)}
		case 4:
			if r.Chance(1, 3) { // zipped with an iterator expression that makes no call: the loop runs zero times
				free := []ast.Node{ast.IntLit{V: 7}, ast.Name{N: "zi"}, ast.ArrayLit{Elems: []ast.Node{ast.IntLit{V: 1}, ast.IntLit{V: 2}}}, ast.Binary{Op: "+", L: ast.Name{N: "zi"}, R: ast.IntLit{V: 1}}}[r.Intn(4)]
				iters := []ast.Node{ast.Call{Fn: "fromto", Args: []ast.Node{ast.IntLit{V: 0}, ast.IntLit{V: int64(r.Range(1, 3))}}}, free}
				if r.Chance(1, 3) {
					iters = append(iters, ast.Call{Fn: "elems", Args: []ast.Node{ast.StrLit{V: "ab"}}})
				}
				return ast.For{Vars: []string{"zz", "zy", "zx"}[:len(iters)], Iters: iters, Body: g.Expr(gen.Int, 1)}
			}
			return ast.For{Vars: []string{"zz"}, Iters: []ast.Node{ast.Call{Fn: "fromto", Args: []ast.Node{ast.IntLit{V: 0}, ast.IntLit{V: int64(r.Intn(3))}}}}, Body: g.Expr(gen.Int, 1)}
		case 5:
			return ast.While{Cond: ast.BoolLit{V: false}, Body: ast.IntLit{V: 1}}
		case 6:
			return ast.Call{Fn: "toa", Args: []ast.Node{g.Expr(gen.Int, 1)}}
		case 7:
			return ast.ArrayLit{Elems: []ast.Node{g.Expr(gen.Int, 1), g.Expr(gen.Int, 1)}}
		default:
			return ast.Assign{Name: "zq", Value: g.Expr(gen.Int, 2)}
		}
	}
	var loop ast.Node
	kind := ""
	switch r.Intn(7) {
	case 6:
		// a generator function called directly (no for loop around it): its yields have no consumer
		kind = "direct-generator-call"
		loop = ast.Block{Stmts: []ast.Node{ast.Assign{Name: "zg", Value: ast.FuncLit{Params: []string{"zn"}, Body: ast.Block{Stmts: []ast.Node{
			ast.Assign{Name: "zi", Value: ast.IntLit{V: 0}},
			ast.While{Cond: ast.Binary{Op: "<", L: ast.Name{N: "zi"}, R: ast.Name{N: "zn"}}, Body: ast.Block{Stmts: []ast.Node{
				ast.Yield{X: ast.Binary{Op: "*", L: ast.Name{N: "zi"}, R: ast.IntLit{V: 2}}},
				ast.Assign{Name: "zi", Value: ast.Binary{Op: "+", L: ast.Name{N: "zi"}, R: ast.IntLit{V: 1}}},
				bodyStmt()}}},
			ast.Name{N: "zi"}}}}}, ast.Call{Fn: "zg", Args: []ast.Node{magic}}}}
	case 0:
		kind = "while"
		loop = ast.Block{Stmts: []ast.Node{ast.Assign{Name: "zi", Value: ast.IntLit{V: 0}},
			ast.While{Cond: ast.Binary{Op: "<", L: ast.Name{N: "zi"}, R: magic}, Body: ast.Block{Stmts: []ast.Node{ast.Assign{Name: "zi", Value: ast.Binary{Op: "+", L: ast.Name{N: "zi"}, R: ast.IntLit{V: 1}}}, bodyStmt()}}}}}
	case 1:
		kind = "for"
		loop = ast.For{Vars: []string{"zi"}, Iters: []ast.Node{ast.Call{Fn: "fromto", Args: []ast.Node{ast.IntLit{V: 0}, magic}}}, Body: bodyStmt()}
	case 2:
		kind = "for-zip"
		loop = ast.For{Vars: []string{"zi", "zj"}, Iters: []ast.Node{ast.Call{Fn: "fromto", Args: []ast.Node{ast.IntLit{V: 0}, magic}}, ast.Call{Fn: "fromto", Args: []ast.Node{ast.IntLit{V: 5}, ast.Binary{Op: "+", L: magic, R: ast.IntLit{V: 9}}}}}, Body: bodyStmt()}
	case 3:
		kind = "for-nested"
		loop = ast.For{Vars: []string{"zi"}, Iters: []ast.Node{ast.Call{Fn: "fromto", Args: []ast.Node{ast.IntLit{V: 0}, magic}}},
			Body: ast.For{Vars: []string{"zj"}, Iters: []ast.Node{ast.Call{Fn: "elems", Args: []ast.Node{ast.StrLit{V: "ab"}}}}, Body: bodyStmt()}}
	case 4:
		kind = "for-in-function"
		loop = ast.Block{Stmts: []ast.Node{ast.Assign{Name: "zf", Value: ast.FuncLit{Params: []string{"zn"}, Body: ast.Block{Stmts: []ast.Node{
			ast.Assign{Name: "zacc", Value: ast.IntLit{V: 0}},
			ast.For{Vars: []string{"zi"}, Iters: []ast.Node{ast.Call{Fn: "fromto", Args: []ast.Node{ast.IntLit{V: 0}, ast.Name{N: "zn"}}}}, Body: ast.Block{Stmts: []ast.Node{bodyStmt(), ast.Assign{Name: "zacc", Value: ast.Binary{Op: "+", L: ast.Name{N: "zacc"}, R: ast.Name{N: "zi"}}}}}},
			ast.Name{N: "zacc"}}}}}, ast.Call{Fn: "zf", Args: []ast.Node{magic}}}}
	default:
		kind = "generator-loop"
		loop = ast.Block{Stmts: []ast.Node{ast.Assign{Name: "zg", Value: ast.FuncLit{Params: []string{"zn"}, Body: ast.For{Vars: []string{"zk"}, Iters: []ast.Node{ast.Call{Fn: "fromto", Args: []ast.Node{ast.IntLit{V: 0}, ast.Name{N: "zn"}}}}, Body: ast.Yield{X: ast.Binary{Op: "*", L: ast.Name{N: "zk"}, R: ast.IntLit{V: 2}}}}}},
			ast.For{Vars: []string{"zi"}, Iters: []ast.Node{ast.Call{Fn: "zg", Args: []ast.Node{magic}}}, Body: bodyStmt()}}}
	}
	switch r.Intn(3) {
	case 0: // the loop is the tail of a function
		kind += "/in-function-tail"
		return append(pre, ast.Assign{Name: "zw", Value: ast.FuncLit{Body: loop}}, ast.Call{Fn: "zw"}), kind
	case 1: // the loop is a discarded mid-block statement of a function
		kind += "/in-function-discarded"
		var body ast.Node
		if b, ok := loop.(ast.Block); ok {
			body = ast.Block{Stmts: append(append([]ast.Node{}, b.Stmts...), ast.IntLit{V: 0})}
		} else {
			body = ast.Block{Stmts: []ast.Node{loop, ast.IntLit{V: 0}}}
		}
		return append(pre, ast.Assign{Name: "zw", Value: ast.FuncLit{Body: body}}, ast.Call{Fn: "zw"}), kind
	}
	return append(pre, loop), kind
}

type scaleObs struct {
	MaxSPMain, MaxSPChild, MaxCtx, BackEdges int
	Residue                                  [4]int
	Err                                      string
}

func c09Scaling(ctx *core.Ctx, idx int) core.Result {
	r := core.CaseRng(ctx.Seed, "C09/scaling", idx)
	var res core.Result
	stmts, kind := scalingProgram(r)
	doOut := idx%2 == 0
	res.Hash = core.Mix(sessionHash(stmts) ^ uint64(idx%2))
	in := map[string]any{"session_with_N": sessionText(substList(stmts, c09Magic, 30)), "loop": kind, "repl_mode": doOut}
	var obs []scaleObs
	for _, n := range []int64{3, 30, 300} {
		inst := substList(stmts, c09Magic, n)
		// the reference guards against programs outside the agreed region
		ref := rs.New()
		for _, st := range inst {
			w := ref.Exec(st)
			if w.Ambiguous != "" || w.Budget || w.TooBig {
				res.Verdict, res.Reason = core.Dropped, "reference: ambiguous/budget"
				return res
			}
		}
		ses := calcrun.NewSession()
		vm.VerifMon.SampleBackEdge = true
		var last calcrun.StmtObs
		for i, st := range inst {
			o := ses.Exec(ast.Print(st, nil), doOut)
			if len(o) != 1 || o[0].Panic != nil || o[0].Parse != nil || o[0].StepLimit || o[0].Hang != "" {
				vm.VerifMon.SampleBackEdge = false
				res.Verdict, res.Reason = core.Inconclusive, "interpreter aborted (decided by C05/C01)"
				return res
			}
			last = o[0]
			if i < len(inst)-1 && last.After.Residue() != last.Before.Residue() && last.Err == "" {
				vm.VerifMon.SampleBackEdge = false
				res.Verdict = core.Violated
				res.Viol = &core.Violation{Monitor: "residue", Detail: fmt.Sprintf("statement %d leaves (sp, frames, closures, contexts) %v -> %v", i, last.Before.Residue(), last.After.Residue()), Input: in}
				return res
			}
		}
		vm.VerifMon.SampleBackEdge = false
		so := scaleObs{last.MaxSPMain, last.MaxSPChild, last.MaxCtxBackEdge, last.BackEdges, [4]int{}, last.Err}
		for k := 0; k < 4; k++ {
			so.Residue[k] = last.After.Residue()[k] - last.Before.Residue()[k]
		}
		obs = append(obs, so)
	}
	res.Add("scaling_triples", 1)
	res.Add("back_edges_sampled", obs[2].BackEdges)
	res.Tag("loop:" + kind)
	res.SetMax("max_sp_main", obs[2].MaxSPMain)
	res.SetMax("max_sp_iterator_memory", obs[2].MaxSPChild)
	res.SetMax("max_live_contexts_at_back_edge", obs[2].MaxCtx)
	for i, o := range obs {
		if o.Err == "" && o.Residue != [4]int{} {
			res.Verdict = core.Violated
			res.Viol = &core.Violation{Monitor: "residue", Detail: fmt.Sprintf("loop statement (N=%d) leaves residue (sp, frames, closures, contexts) %v", []int{3, 30, 300}[i], o.Residue), Input: in}
			return res
		}
	}
	if obs[0].Err == "" && obs[1].Err == "" && obs[2].Err == "" {
		a, b, c := obs[0], obs[1], obs[2]
		if a.MaxSPMain != b.MaxSPMain || b.MaxSPMain != c.MaxSPMain || a.MaxSPChild != b.MaxSPChild || b.MaxSPChild != c.MaxSPChild || b.MaxCtx != c.MaxCtx {
			res.Verdict = core.Violated
			res.Viol = &core.Violation{Monitor: "n-scaling", Detail: fmt.Sprintf("working storage grows with the iteration count: N=3 %+v, N=30 %+v, N=300 %+v", a, b, c), Input: in}
			return res
		}
	}
	res.Verdict = core.Held
	res.Nontrivial = obs[2].BackEdges >= 100
	res.Sample = in
	return res
}

func c09Residue(ctx *core.Ctx, idx int) core.Result {
	r := core.CaseRng(ctx.Seed, "C09/residue", idx)
	o := gen.DefaultOpts()
	o.MaxDepth = r.Range(1, 4)
	o.MaxStmts = r.Range(1, 4)
	if r.Chance(1, 4) {
		o.Faults = 1
	}
	g := gen.New(r, o)
	stmts := append(g.Helpers(), g.Session(r.Range(2, 7))...)
	opts := diffOpts{DoOut: idx%2 == 0, Stress: "plain", Residue: true}
	d := runDiff(stmts, opts)
	res := diffCase("C09", stmts, opts, d, nil)
	res.Tags = append(res.Tags, classesOf(g)...)
	return res
}

// c09Flags: the machine is as clean after a statement when the REPL/file loop runs it with its display options
// on (-ast, -bytecode) as without them: the statements of a typed session go through processInput one input
// each, and the hooked counts are read after every input.
func c09Flags(ctx *core.Ctx, idx int) core.Result {
	r := core.CaseRng(ctx.Seed, "C09/flags", idx)
	var res core.Result
	o := gen.DefaultOpts()
	o.MaxDepth = r.Range(1, 3)
	o.MaxStmts = r.Range(1, 3)
	g := gen.New(r, o)
	stmts := append(g.Helpers(), g.Session(r.Range(2, 6))...)
	doOut := r.Bool()
	astOn, bcOn := idx%3 != 2, idx%3 != 0
	res.Hash = core.Mix(sessionHash(stmts) ^ uint64(idx%3))
	in := map[string]any{"session": sessionText(stmts), "repl_mode": doOut, "ast_flag": astOn, "bytecode_flag": bcOn}
	calcrun.SetStdin("line\n")
	ses := calcrun.NewSession()
	ref := rs.New()
	ref.SetStdin("line\n")
	oldA, oldB := *flags.AstFlag, *flags.ByteCodeFlag
	*flags.AstFlag, *flags.ByteCodeFlag = astOn, bcOn
	defer func() { *flags.AstFlag, *flags.ByteCodeFlag = oldA, oldB }()
	for i, st := range stmts {
		if d := ast.Denotable(st); d != "" {
			return core.Result{Verdict: core.Inconclusive, Reason: "undenotable: " + d}
		}
		if w := ref.Exec(st); w.Ambiguous != "" || w.Budget || w.TooBig {
			break // (outside the agreed region or too long for the reference: the session ends here)
		}
		src := ast.Print(st, nil)
		before := ses.State()
		var pan any
		vm.VerifReset()
		vm.VerifMon.StepLimit = 5000000
		func() {
			defer func() { pan = recover() }()
			calcrun.Capture(func() { node.VerifProcessInput(src, parser.Type{}, ses.VM, doOut) })
		}()
		vm.VerifMon.StepLimit = 0
		if _, lim := pan.(vm.VerifStepLimitHit); lim {
			return core.Result{Verdict: core.Inconclusive, Reason: "diverged (VM step limit)"}
		}
		if pan != nil {
			res.Verdict = core.Violated
			res.Viol = &core.Violation{Monitor: "no-abort", Detail: fmt.Sprintf("statement %d %q with the display flags on: %v", i, trunc(src, 200), pan), Input: in}
			return res
		}
		after := ses.State()
		if after.Residue() != before.Residue() && after.Residue() != [4]int{0, 0, 0, 0} {
			res.Verdict = core.Violated
			res.Viol = &core.Violation{Monitor: "residue", Detail: fmt.Sprintf("statement %d %q run by the input loop with -ast=%v -bytecode=%v leaves (sp, frames, closures, contexts) %v -> %v", i, trunc(src, 200), astOn, bcOn, before.Residue(), after.Residue()), Input: in}
			return res
		}
		res.Add("statements_with_display_flags", 1)
	}
	res.Verdict = core.Held
	res.Nontrivial = true
	res.Sample = in
	return res
}

func init() {
	register(&core.Property{
		ID:          "C09",
		Rule:        "(1) residue: typed sessions (as in C01) and the directed corpus in REPL and script mode, (sp, frames, closures, live contexts) compared before/after every statement (after a failing statement all must be 0 and the main instruction pointer at the end of the code); (2) N-scaling: programs whose last statement is a loop of N iterations — while, for, zipped for, nested for, for inside a function, loop over a generator that itself loops — with every statement form as the last statement of the body (expression, if with computed and with constant body, if/else, inner for, inner zipped for with a call-free iterator expression, inner while, call, array literal, assignment, a yield without consumer), run with N = 3, 30, 300; max stack pointer per memory kind and max live contexts at back-edges must not depend on N; (3) flags: typed sessions fed to the input loop (processInput) one statement per input with -ast / -bytecode display on, the same counts read after every input. non-trivial = >= 25 reference steps with a call or loop (residue) / >= 100 back-edges sampled (scaling).",
		Assumptions: []string{"the operand stack holds fixed-size value headers, so live data size does not enter the stack pointer"},
		Families: []core.Family{
			{Name: "corpus", Count: func(string) int { return len(corpusSessions()) * 2 * len(stressModes) }, Run: func(_ *core.Ctx, idx int) core.Result { return corpusCase("C09", idx, true) }},
			{Name: "residue", Count: countFn(12000, 500000), Run: c09Residue},
			{Name: "scaling", Count: countFn(5000, 150000), Run: c09Scaling},
			{Name: "flags", Count: countFn(900, 30000), Run: c09Flags},
		},
		Floors: []core.Floor{{Key: "statements_compared", Quick: 10000, Thor: 1000000}, {Key: "scaling_triples", Quick: 1000, Thor: 100000}, {Key: "back_edges_sampled", Quick: 200000, Thor: 20000000}, {Key: "tag:loop:", Quick: 14, Thor: 14}},
	})
	core.CaseSeconds["C09/scaling"] = 0.5
}
