package props

import (
	"os"
	"path/filepath"
	"sort"
	"strings"
	"sync"

	"verif/ast"
	"verif/calcrun"
)

type corpusSession struct {
	Name  string
	Stmts []ast.Node
	Bad   string // a statement the real parser rejects
}

var sessOnce sync.Once
var sessList []corpusSession

// corpusSessions loads /verif/corpus/sessions/*.sess (statements separated by
// %% lines). The trees come from the real parser (C07 establishes that it
// follows the grammar), the expectations from the reference semantics.
func corpusSessions() []corpusSession {
	sessOnce.Do(func() {
		dir := os.Getenv("VERIF_DIR")
		if dir == "" {
			dir = "/verif"
		}
		files, _ := filepath.Glob(filepath.Join(dir, "corpus", "sessions", "*.sess"))
		sort.Strings(files)
		for _, f := range files {
			b, err := os.ReadFile(f)
			if err != nil {
				continue
			}
			cs := corpusSession{Name: strings.TrimSuffix(filepath.Base(f), ".sess")}
			for _, src := range strings.Split(string(b), "\n%%\n") {
				src = strings.Trim(src, "\n")
				nodes, perr, pan, hang, _, _ := calcrun.Parse(src)
				if perr != nil || pan != nil || hang != "" || len(nodes) != 1 {
					cs.Bad = src
					break
				}
				cs.Stmts = append(cs.Stmts, calcrun.FromNode(nodes[0]))
			}
			sessList = append(sessList, cs)
		}
	})
	return sessList
}
