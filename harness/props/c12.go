package props

import (
	"fmt"
	"strings"

	"verif/ast"
	"verif/calcrun"
	"verif/core"
	"verif/gen"
	"verif/rs"
	"verif/val"
)

// C12 — an expression means the same wherever it is written. Metamorphic
// monitor: one expression/statement is embedded in many syntactic positions
// that select different code-generation strategies; value (where the position
// lets it be observed), output and error class must agree with each other and
// with the reference semantics' answer for the plain expression.

type placement struct {
	Name    string
	Stmts   []ast.Node
	DoOut   bool
	Observe bool // the last statement's value is the expression's value
	// Xform (optional): the last statement's value is this function of the expression's value (operands that
	// are not identity elements make the operand order visible)
	Xform func(val.Value) val.Value
}

func nm(s string) ast.Node { return ast.Name{N: s} }

func c12Placements(e ast.Node, t gen.Ty, r *core.Rng, globals map[string]bool) []placement {
	var ps []placement
	add := func(name string, observe bool, doOut bool, stmts ...ast.Node) {
		ps = append(ps, placement{Name: name, Stmts: stmts, DoOut: doOut, Observe: observe})
	}
	fn := func(body ast.Node) ast.Node { return ast.FuncLit{Body: body} }
	call := func(f string, args ...ast.Node) ast.Node { return ast.Call{Fn: f, Args: args} }
	add("used", true, true, e)
	add("discarded", false, false, e)
	add("function-tail", true, true, ast.Assign{Name: "vf", Value: fn(e)}, call("vf"))
	add("function-tail-discarded", false, false, ast.Assign{Name: "vf", Value: fn(e)}, call("vf"))
	add("function-return", true, true, ast.Assign{Name: "vf", Value: fn(ast.Return{X: e})}, call("vf"))
	add("function-non-tail", true, true, ast.Assign{Name: "vf", Value: fn(ast.Block{Stmts: []ast.Node{ast.Assign{Name: "vt", Value: e}, nm("vt")}})}, call("vf"))
	add("function-mid-block-discarded", false, true, ast.Assign{Name: "vf", Value: fn(ast.Block{Stmts: []ast.Node{e, ast.IntLit{V: 0}}})}, call("vf"))
	add("assign-then-read", true, true, ast.Block{Stmts: []ast.Node{ast.Assign{Name: "vt", Value: e}, nm("vt")}})
	add("assign-value", true, true, ast.Assign{Name: "vt", Value: e})
	add("argument", true, true, ast.Assign{Name: "vid", Value: ast.FuncLit{Params: []string{"vx"}, Body: nm("vx")}}, call("vid", e))
	add("array-element", true, true, ast.Index{X: ast.ArrayLit{Elems: []ast.Node{e}}, I: ast.IntLit{V: 0}})
	add("array-element-after-constants", true, true, ast.Index{X: ast.ArrayLit{Elems: []ast.Node{ast.IntLit{V: 7}, ast.StrLit{V: "c"}, e}}, I: ast.IntLit{V: 2}})
	if t.K == gen.TInt {
		// index and slice-bound positions (value not observable, output and error class are)
		add("index-position", false, true, ast.Index{X: ast.ArrayLit{Elems: []ast.Node{ast.IntLit{V: 7}, ast.IntLit{V: 8}}}, I: ast.Binary{Op: "*", L: e, R: ast.IntLit{V: 0}}})
		add("slice-bound-position", false, true, ast.Slice{X: ast.StrLit{V: "abc"}, I: ast.Binary{Op: "*", L: e, R: ast.IntLit{V: 0}}, J: ast.IntLit{V: 2}})
	}
	add("if-true-arm", true, true, ast.If{Cond: ast.BoolLit{V: true}, Then: e, Else: ast.IntLit{V: 0}})
	add("if-no-else", true, true, ast.If{Cond: ast.BoolLit{V: true}, Then: e})
	add("if-else-arm-negated", true, true, ast.If{Cond: ast.Unary{Op: "!", X: ast.BoolLit{V: true}}, Then: ast.IntLit{V: 0}, Else: e})
	add("while-body", true, true, ast.Block{Stmts: []ast.Node{ast.Assign{Name: "vi", Value: ast.IntLit{V: 0}},
		ast.While{Cond: ast.Binary{Op: "<", L: nm("vi"), R: ast.IntLit{V: 1}}, Body: ast.Block{Stmts: []ast.Node{ast.Assign{Name: "vi", Value: ast.Binary{Op: "+", L: nm("vi"), R: ast.IntLit{V: 1}}}, e}}}}})
	add("while-body-discarded", false, false, ast.Block{Stmts: []ast.Node{ast.Assign{Name: "vi", Value: ast.IntLit{V: 0}},
		ast.While{Cond: ast.Binary{Op: "<", L: nm("vi"), R: ast.IntLit{V: 1}}, Body: ast.Block{Stmts: []ast.Node{ast.Assign{Name: "vi", Value: ast.Binary{Op: "+", L: nm("vi"), R: ast.IntLit{V: 1}}}, e}}}}})
	add("for-body", true, true, ast.For{Vars: []string{"vi"}, Iters: []ast.Node{call("fromto", ast.IntLit{V: 0}, ast.IntLit{V: 1})}, Body: e})
	add("for-body-in-function", true, true, ast.Assign{Name: "vf", Value: fn(ast.For{Vars: []string{"vi"}, Iters: []ast.Node{call("fromto", ast.IntLit{V: 0}, ast.IntLit{V: 1})}, Body: e})}, call("vf"))
	add("yielded", true, true, ast.Assign{Name: "vg", Value: fn(ast.Yield{X: e})}, ast.For{Vars: []string{"vi"}, Iters: []ast.Node{call("vg")}, Body: nm("vi")})
	add("toplevel-return", true, true, ast.Return{X: e})
	// e inside a function whose parameters carry the values of e's variables, so that e reads locals; right before
	// it an assignment to its leftmost variable sits in an if that is skipped at run time, and before that a
	// computation that leaves something in the temp register
	var names []string
	seen := map[string]bool{}
	ast.Walk(e, func(x ast.Node) bool {
		if n, ok := x.(ast.Name); ok && globals[n.N] && !seen[n.N] {
			seen[n.N] = true
			names = append(names, n.N)
		}
		return true
	})
	if len(names) > 0 && len(names) <= 8 {
		lm := names[0]
		for x := e; ; {
			if b, ok := x.(ast.Binary); ok {
				x = b.L
				continue
			}
			if n, ok := x.(ast.Name); ok && seen[n.N] {
				lm = n.N
			}
			break
		}
		args := make([]ast.Node, 0, len(names)+1)
		for _, n := range names {
			args = append(args, nm(n))
		}
		args = append(args, ast.BoolLit{V: false})
		body := ast.Block{Stmts: []ast.Node{
			ast.Assign{Name: "vtq", Value: ast.Binary{Op: "*", L: ast.Binary{Op: "+", L: ast.IntLit{V: 5}, R: ast.IntLit{V: 6}}, R: ast.IntLit{V: 2}}},
			ast.If{Cond: nm("vskip"), Then: ast.Assign{Name: lm, Value: ast.Binary{Op: "*", L: ast.Binary{Op: "+", L: nm("vtq"), R: ast.IntLit{V: 1}}, R: ast.IntLit{V: 2}}}},
			e}}
		add("locals-after-skipped-assignment", true, true, ast.Assign{Name: "vf", Value: ast.FuncLit{Params: append(append([]string{}, names...), "vskip"), Body: body}}, call("vf", args...))
	}
	add("toplevel-return-discarded", false, false, ast.Return{X: e})
	// typed identity wrappers move e to operand depth 1..3 and to the left/right side
	var ids []func(ast.Node) ast.Node
	switch t.K {
	case gen.TInt:
		ids = []func(ast.Node) ast.Node{
			func(x ast.Node) ast.Node { return ast.Binary{Op: "+", L: x, R: ast.IntLit{V: 0}} },
			func(x ast.Node) ast.Node { return ast.Binary{Op: "+", L: ast.IntLit{V: 0}, R: x} },
			func(x ast.Node) ast.Node { return ast.Binary{Op: "*", L: x, R: ast.IntLit{V: 1}} },
			func(x ast.Node) ast.Node { return ast.Binary{Op: "|", L: x, R: ast.IntLit{V: 0}} },
			func(x ast.Node) ast.Node { return ast.Binary{Op: "-", L: x, R: ast.IntLit{V: 0}} },
			func(x ast.Node) ast.Node { return ast.Binary{Op: "<<", L: x, R: ast.IntLit{V: 0}} },
			func(x ast.Node) ast.Node { return ast.Unary{Op: "~", X: ast.Unary{Op: "~", X: x}} },
		}
	case gen.TFloat:
		ids = []func(ast.Node) ast.Node{
			func(x ast.Node) ast.Node { return ast.Binary{Op: "*", L: x, R: ast.IntLit{V: 1}} },
			func(x ast.Node) ast.Node { return ast.Binary{Op: "*", L: ast.FloatLit{V: 1}, R: x} },
			func(x ast.Node) ast.Node { return ast.Binary{Op: "/", L: x, R: ast.IntLit{V: 1}} },
		}
	case gen.TBool:
		ids = []func(ast.Node) ast.Node{
			func(x ast.Node) ast.Node { return ast.Binary{Op: "&", L: x, R: ast.BoolLit{V: true}} },
			func(x ast.Node) ast.Node { return ast.Binary{Op: "||", L: ast.BoolLit{V: false}, R: x} },
			func(x ast.Node) ast.Node { return ast.Unary{Op: "!", X: ast.Unary{Op: "!", X: x}} },
			func(x ast.Node) ast.Node { return ast.Binary{Op: "==", L: x, R: ast.BoolLit{V: true}} },
		}
	case gen.TStr:
		ids = []func(ast.Node) ast.Node{
			func(x ast.Node) ast.Node { return ast.Binary{Op: "+", L: x, R: ast.StrLit{V: ""}} },
			func(x ast.Node) ast.Node { return ast.Binary{Op: "+", L: ast.StrLit{V: ""}, R: x} },
		}
	case gen.TArr:
		ids = []func(ast.Node) ast.Node{
			func(x ast.Node) ast.Node { return ast.Binary{Op: "+", L: x, R: ast.ArrayLit{}} },
			func(x ast.Node) ast.Node { return ast.Binary{Op: "+", L: ast.ArrayLit{}, R: x} },
		}
	}
	// e as the RIGHT operand of an operator whose left operand is itself an operator
	// expression (kept in the temp register unless the compiler sees a call in e)
	var nested []func(ast.Node) ast.Node
	switch t.K {
	case gen.TInt:
		nested = []func(ast.Node) ast.Node{
			func(x ast.Node) ast.Node {
				return ast.Binary{Op: "+", L: ast.Binary{Op: "+", L: ast.IntLit{V: 0}, R: ast.IntLit{V: 0}}, R: x}
			},
			func(x ast.Node) ast.Node {
				return ast.Binary{Op: "*", L: ast.Binary{Op: "*", L: ast.IntLit{V: 1}, R: ast.IntLit{V: 1}}, R: x}
			},
			func(x ast.Node) ast.Node {
				return ast.Binary{Op: "|", L: ast.Binary{Op: "-", L: ast.IntLit{V: 3}, R: ast.IntLit{V: 3}}, R: x}
			},
		}
	case gen.TFloat:
		nested = []func(ast.Node) ast.Node{func(x ast.Node) ast.Node {
			return ast.Binary{Op: "*", L: ast.Binary{Op: "+", L: ast.IntLit{V: 1}, R: ast.IntLit{V: 0}}, R: x}
		}}
	case gen.TBool:
		nested = []func(ast.Node) ast.Node{func(x ast.Node) ast.Node {
			return ast.Binary{Op: "&", L: ast.Binary{Op: "|", L: ast.BoolLit{V: true}, R: ast.BoolLit{V: false}}, R: x}
		}}
	case gen.TStr:
		nested = []func(ast.Node) ast.Node{func(x ast.Node) ast.Node {
			return ast.Binary{Op: "+", L: ast.Binary{Op: "+", L: ast.StrLit{V: ""}, R: ast.StrLit{V: ""}}, R: x}
		}}
	case gen.TArr:
		nested = []func(ast.Node) ast.Node{func(x ast.Node) ast.Node {
			return ast.Binary{Op: "+", L: ast.Binary{Op: "+", L: ast.ArrayLit{}, R: ast.ArrayLit{}}, R: x}
		}}
	}
	// operands that are not identity elements: the order of the operands shows in the value
	switch t.K {
	case gen.TStr:
		mark := func(name string, build func(ast.Node) ast.Node, f func(string) string) {
			ps = append(ps, placement{Name: name, Stmts: []ast.Node{build(e)}, DoOut: true, Observe: true, Xform: func(v val.Value) val.Value { return val.StrV(f(v.S)) }})
		}
		mark("literal-left-of", func(x ast.Node) ast.Node { return ast.Binary{Op: "+", L: ast.StrLit{V: "<"}, R: x} }, func(v string) string { return "<" + v })
		mark("literal-right-of", func(x ast.Node) ast.Node { return ast.Binary{Op: "+", L: x, R: ast.StrLit{V: ">"}} }, func(v string) string { return v + ">" })
		mark("literal-both-sides-of", func(x ast.Node) ast.Node {
			return ast.Binary{Op: "+", L: ast.Binary{Op: "+", L: ast.StrLit{V: "<"}, R: x}, R: ast.StrLit{V: ">"}}
		}, func(v string) string { return "<" + v + ">" })
		mark("literal-left-of-nested", func(x ast.Node) ast.Node {
			return ast.Binary{Op: "+", L: ast.StrLit{V: "<"}, R: ast.Binary{Op: "+", L: x, R: ast.StrLit{V: "|"}}}
		}, func(v string) string { return "<" + v + "|" })
	case gen.TArr:
		mark := func(name string, build func(ast.Node) ast.Node, f func([]val.Value) []val.Value) {
			ps = append(ps, placement{Name: name, Stmts: []ast.Node{build(e)}, DoOut: true, Observe: true, Xform: func(v val.Value) val.Value { return val.ArrV(f(v.A)) }})
		}
		one, two := ast.ArrayLit{Elems: []ast.Node{ast.IntLit{V: 71}}}, ast.ArrayLit{Elems: []ast.Node{ast.IntLit{V: 72}}}
		v1, v2 := val.IntV(71), val.IntV(72)
		mark("literal-left-of", func(x ast.Node) ast.Node { return ast.Binary{Op: "+", L: one, R: x} }, func(a []val.Value) []val.Value { return append([]val.Value{v1}, a...) })
		mark("literal-right-of", func(x ast.Node) ast.Node { return ast.Binary{Op: "+", L: x, R: two} }, func(a []val.Value) []val.Value { return append(append([]val.Value{}, a...), v2) })
		mark("literal-left-of-nested", func(x ast.Node) ast.Node {
			return ast.Binary{Op: "+", L: one, R: ast.Binary{Op: "+", L: x, R: two}}
		}, func(a []val.Value) []val.Value { return append(append([]val.Value{v1}, a...), v2) })
	}
	for i, w := range nested {
		add(fmt.Sprintf("right-of-nested-left-%d", i), true, true, w(e))
		add(fmt.Sprintf("right-of-nested-left-in-function-%d", i), true, true, ast.Assign{Name: "vf", Value: fn(w(e))}, call("vf"))
		add(fmt.Sprintf("unary-of-nested-%d", i), false, false, ast.Unary{Op: "#", X: toa(w(e))})
	}
	for i, id := range ids {
		add(fmt.Sprintf("operand-depth1-%d", i), true, true, id(e))
		add(fmt.Sprintf("operand-depth1-%d-discarded", i), false, false, id(e))
	}
	if len(ids) > 0 {
		a, b, c := ids[r.Intn(len(ids))], ids[r.Intn(len(ids))], ids[r.Intn(len(ids))]
		add("operand-depth2", true, true, a(b(e)))
		add("operand-depth3", true, true, a(b(c(e))))
		add("operand-depth2-in-function", true, true, ast.Assign{Name: "vf", Value: fn(a(b(e)))}, call("vf"))
		add("operand-depth2-assigned", true, true, ast.Block{Stmts: []ast.Node{ast.Assign{Name: "vt", Value: a(b(e))}, nm("vt")}})
	}
	return ps
}

// c12Globals: the global names that hold a value (something that can be passed as an argument) after the prelude.
func c12Globals(ref *rs.Interp) map[string]bool {
	m := map[string]bool{}
	for k, v := range ref.Globals {
		if v.K != val.Nil {
			m[k] = true
		}
	}
	return m
}

// runPlacement executes prelude + placement on a fresh calc session and
// returns (value, output of the placement statements, error class).
func runPlacement(prelude []ast.Node, p placement) (v val.Value, out, errc string, abort string) {
	ses := calcrun.NewSession()
	for _, st := range prelude {
		o := ses.Exec(ast.Print(st, nil), false)
		if len(o) != 1 || o[0].Panic != nil || o[0].Parse != nil || o[0].StepLimit || o[0].Hang != "" {
			return v, "", "", "prelude aborted"
		}
	}
	for i, st := range p.Stmts {
		o := ses.Exec(ast.Print(st, nil), p.DoOut)
		if len(o) != 1 {
			return v, out, "", fmt.Sprintf("statement executed as %d statements", len(o))
		}
		switch {
		case o[0].Parse != nil:
			return v, out, "", "rejected: " + o[0].Parse.Msg
		case o[0].Panic != nil:
			return v, out, "", "panic: " + o[0].Panic.Msg + " at " + o[0].Panic.Site
		case o[0].StepLimit:
			return v, out, "", "step limit"
		case o[0].Hang != "":
			return v, out, "", "front end hang"
		}
		out += o[0].Out
		if o[0].Err != "" {
			return v, out, o[0].Err, ""
		}
		if i == len(p.Stmts)-1 {
			v = o[0].Value
		}
	}
	return v, out, "", ""
}

func c12Expr(ctx *core.Ctx, idx int) core.Result {
	r := core.CaseRng(ctx.Seed, "C12/expr", idx)
	var res core.Result
	o := gen.DefaultOpts()
	o.MaxDepth = r.Range(1, 4)
	o.Generators = r.Chance(1, 2)
	if r.Chance(1, 4) {
		o.Faults = 1
	}
	g := gen.New(r, o)
	prelude := g.Helpers()
	for k := r.Range(0, 3); k > 0; k-- {
		prelude = append(prelude, g.TopStmt())
	}
	ts := []gen.Ty{gen.Int, gen.Int, gen.Bool, gen.Str, gen.ArrOf(gen.Int), gen.Float}
	t := ts[r.Intn(len(ts))]
	e := g.Expr(t, r.Range(1, 4))
	if r.Chance(1, 10) {
		// an operator whose two operands are the same tree and contain a call with an effect: the call happens twice
		prelude = append(prelude, ast.Assign{Name: "tcount", Value: ast.FuncLit{Params: []string{"k"}, Body: ast.Block{Stmts: []ast.Node{icall("write", ast.StrLit{V: "#"}), ast.Binary{Op: "+", L: nm("k"), R: il(1)}}}}})
		c := icall("tcount", g.Expr(gen.Int, 1))
		switch r.Intn(3) {
		case 0:
			t, e = gen.Int, ast.Binary{Op: []string{"+", "*", "-"}[r.Intn(3)], L: c, R: c}
		case 1:
			t, e = gen.Int, ast.Binary{Op: "+", L: ast.Binary{Op: "*", L: c, R: il(2)}, R: ast.Binary{Op: "*", L: c, R: il(2)}}
		default:
			t, e = gen.Bool, ast.Binary{Op: "==", L: c, R: c}
		}
		res.Tag("expr:same-operand-trees-with-effect")
	} else if r.Chance(1, 12) {
		// two operands that look alike on paper but are different trees: 2 / 2.0 / "2", a variable and the string spelling its name
		prelude = append(prelude, ast.Assign{Name: "tnum", Value: il(int64(r.Range(3, 9)))}, ast.Assign{Name: "tname", Value: ast.StrLit{V: "joe"}})
		switch r.Intn(3) {
		case 0:
			t, e = gen.Float, ast.Binary{Op: "+", L: ast.Binary{Op: "/", L: nm("tnum"), R: il(2)}, R: ast.Binary{Op: "/", L: nm("tnum"), R: ast.FloatLit{V: 2}}}
		case 1:
			t, e = gen.Str, ast.Binary{Op: "+", L: ast.Binary{Op: "+", L: nm("tname"), R: ast.StrLit{V: "?"}}, R: ast.Binary{Op: "+", L: ast.StrLit{V: "tname"}, R: ast.StrLit{V: "?"}}}
		default:
			t, e = gen.Str, ast.Binary{Op: "+", L: toa(ast.Binary{Op: "*", L: nm("tnum"), R: il(2)}), R: toa(ast.Binary{Op: "*", L: nm("tnum"), R: ast.FloatLit{V: 2}})}
		}
		res.Tag("expr:look-alike-operands")
	} else if r.Chance(1, 14) {
		// a negated comparison with an operand that is not a number: !(nan < k) is true, nan >= k is false
		prelude = append(prelude, ast.Assign{Name: "tnan", Value: ast.Binary{Op: "/", L: ast.FloatLit{V: 0}, R: ast.FloatLit{V: 0}}}, ast.Assign{Name: "tk", Value: ast.FloatLit{V: float64(r.Range(1, 9))}})
		cmp := []string{"<", ">", "<=", ">=", "=="}[r.Intn(5)]
		l, rr := nm("tnan"), nm("tk")
		if r.Bool() {
			l, rr = rr, l
		}
		t, e = gen.Bool, ast.Unary{Op: "!", X: ast.Binary{Op: cmp, L: l, R: rr}}
		res.Tag("expr:negated-comparison-with-nan")
	}
	res.Hash = core.Mix(sessionHash(prelude) ^ core.HashString(ast.Sexp(e)))
	// the reference answer for the plain expression
	ref := rs.New()
	for _, st := range prelude {
		w := ref.Exec(st)
		if w.Ambiguous != "" || w.Budget || w.TooBig {
			res.Verdict, res.Reason = core.Dropped, "prelude outside the agreed region"
			return res
		}
	}
	globalsBefore := c12Globals(ref)
	w := ref.Exec(e)
	if w.Ambiguous != "" || w.Budget || w.TooBig {
		res.Verdict, res.Reason = core.Dropped, "expression outside the agreed region: "+w.Ambiguous
		return res
	}
	if w.Err == "" && w.Value.K == val.Nil {
		res.Verdict, res.Reason = core.Dropped, "expression has no value"
		return res
	}
	if w.Err == "" {
		// the typed placements (e + [], "<" + e, e * 1 ...) are identities only for a value of the expression's static
		// type; a planted fault that skipped a re-assignment leaves a variable with the value, and kind, it had before
		wantK := map[gen.TK]val.Kind{gen.TInt: val.Int, gen.TFloat: val.Float, gen.TBool: val.Bool, gen.TStr: val.Str, gen.TArr: val.Arr}
		if k, ok := wantK[t.K]; ok && w.Value.K != k {
			res.Verdict, res.Reason = core.Dropped, "the expression's value is not of its static type (an assignment was skipped by a planted fault)"
			return res
		}
	}
	in := map[string]any{"prelude": sessionText(prelude), "expression": ast.Print(e, nil), "type": t.String(),
		"reference": map[string]any{"value": val.Debug(w.Value), "output": w.Out, "error": w.Err}}
	for _, p := range c12Placements(e, t, r, globalsBefore) {
		if d := ast.Denotable(p.Stmts[len(p.Stmts)-1]); d != "" {
			continue
		}
		v, out, errc, abort := runPlacement(prelude, p)
		res.Add("placements_run", 1)
		res.Tag("placement:" + strings.TrimRight(p.Name, "0123456789-"))
		bad := ""
		switch {
		case abort != "":
			bad = abort
		case errc != w.Err:
			bad = fmt.Sprintf("error class %q, plain expression %q", errc, w.Err)
		case out != w.Out:
			bad = fmt.Sprintf("output %q, plain expression %q", trunc(out, 200), trunc(w.Out, 200))
		case w.Err == "" && p.Observe && p.Xform != nil && !val.Same(v, p.Xform(w.Value)):
			bad = fmt.Sprintf("value %s, with the plain expression's value it is %s", trunc(val.Debug(v), 200), trunc(val.Debug(p.Xform(w.Value)), 200))
		case w.Err == "" && p.Observe && p.Xform == nil && !val.Same(v, w.Value):
			bad = fmt.Sprintf("value %s, plain expression %s", trunc(val.Debug(v), 200), trunc(val.Debug(w.Value), 200))
		}
		if bad != "" {
			in["placement"] = p.Name
			in["placement_text"] = sessionText(p.Stmts)
			res.Verdict = core.Violated
			res.Viol = &core.Violation{Monitor: "placement", Detail: fmt.Sprintf("placement %s of %q: %s", p.Name, trunc(ast.Print(e, nil), 200), bad), Input: in}
			return res
		}
	}
	for _, s := range calcrun.Shapes() {
		res.Tag("shape:" + s)
	}
	if w.Err != "" {
		res.Tag("err:" + w.Err)
	}
	res.Verdict = core.Held
	res.Nontrivial = ast.Size(e) >= 3
	res.Sample = in
	return res
}

// c12Rewrites: statement-level rewrites that must be equivalent.
func c12Rewrites(ctx *core.Ctx, idx int) core.Result {
	r := core.CaseRng(ctx.Seed, "C12/rewrite", idx)
	var res core.Result
	o := gen.DefaultOpts()
	o.MaxDepth = r.Range(1, 3)
	o.Generators = false
	g := gen.New(r, o)
	var variants [][]ast.Node
	var kind string
	x := nm("vx")
	inFn := r.Bool()
	wrap := func(stmts ...ast.Node) []ast.Node {
		if !inFn {
			return []ast.Node{ast.Block{Stmts: stmts}}
		}
		return []ast.Node{ast.Assign{Name: "vf", Value: ast.FuncLit{Body: ast.Block{Stmts: stmts}}}, ast.Call{Fn: "vf"}}
	}
	switch idx % 5 {
	case 4: // the README's shadowing increment: the first mention of x in a function is x = x + 1, x being a global or a captured variable
		kind = "increment-shadowing"
		init := []ast.Node{ast.IntLit{V: int64(r.Intn(100))}, ast.FloatLit{V: 2.5}, ast.StrLit{V: "s"}}[r.Intn(3)]
		mk := func(body ...ast.Node) []ast.Node {
			body = append(body, x)
			if inFn { // x captured from an enclosing function
				return []ast.Node{ast.Assign{Name: "vo", Value: ast.FuncLit{Body: ast.Block{Stmts: []ast.Node{ast.Assign{Name: "vx", Value: init},
					ast.Assign{Name: "vi", Value: ast.FuncLit{Body: ast.Block{Stmts: body}}}, ast.ArrayLit{Elems: []ast.Node{ast.Call{Fn: "vi"}, x}}}}}}, ast.Call{Fn: "vo"}}
			}
			return []ast.Node{ast.Assign{Name: "vx", Value: init}, ast.Assign{Name: "vi", Value: ast.FuncLit{Body: ast.Block{Stmts: body}}}, ast.ArrayLit{Elems: []ast.Node{ast.Call{Fn: "vi"}, x}}}
		}
		variants = [][]ast.Node{
			mk(ast.Assign{Name: "vx", Value: ast.Binary{Op: "+", L: x, R: ast.IntLit{V: 1}}}),
			mk(ast.Assign{Name: "vx", Value: ast.Binary{Op: "+", L: ast.IntLit{V: 1}, R: x}}),
			mk(ast.Assign{Name: "vt", Value: x}, ast.Assign{Name: "vx", Value: ast.Binary{Op: "+", L: nm("vt"), R: ast.IntLit{V: 1}}}),
			mk(ast.Assign{Name: "vx", Value: ast.Binary{Op: "-", L: ast.Binary{Op: "+", L: x, R: ast.IntLit{V: 2}}, R: ast.IntLit{V: 1}}}),
		}
		if _, isStr := init.(ast.StrLit); isStr {
			variants = variants[:3]
		}
	case 0: // x = x + 1 / x = 1 + x / t = x ; x = t + 1
		kind = "increment"
		init := []ast.Node{ast.IntLit{V: int64(r.Intn(100))}, ast.FloatLit{V: 2.5}, ast.StrLit{V: "s"}, ast.IntLit{V: 9223372036854775807}, ast.ArrayLit{}, ast.BoolLit{V: true}}[r.Intn(6)]
		variants = [][]ast.Node{
			wrap(ast.Assign{Name: "vx", Value: init}, ast.Assign{Name: "vx", Value: ast.Binary{Op: "+", L: x, R: ast.IntLit{V: 1}}}, x),
			wrap(ast.Assign{Name: "vx", Value: init}, ast.Assign{Name: "vx", Value: ast.Binary{Op: "+", L: ast.IntLit{V: 1}, R: x}}, x),
			wrap(ast.Assign{Name: "vx", Value: init}, ast.Assign{Name: "vt", Value: x}, ast.Assign{Name: "vx", Value: ast.Binary{Op: "+", L: nm("vt"), R: ast.IntLit{V: 1}}}, x),
			wrap(ast.Assign{Name: "vx", Value: init}, ast.Assign{Name: "vx", Value: ast.Binary{Op: "+", L: ast.Binary{Op: "+", L: x, R: ast.IntLit{V: 0}}, R: ast.IntLit{V: 1}}}, x),
		}
		if r.Chance(1, 3) {
			// the same with the operators that do not commute: x = 1 - x is not x = x - 1
			op := []string{"-", "/", "%", "<<"}[r.Intn(4)]
			k := ast.IntLit{V: 1}
			kind = "decrement-and-mirror"
			variants = [][]ast.Node{
				wrap(ast.Assign{Name: "vx", Value: init}, ast.Assign{Name: "vx", Value: ast.Binary{Op: op, L: k, R: x}}, x),
				wrap(ast.Assign{Name: "vx", Value: init}, ast.Assign{Name: "vt", Value: x}, ast.Assign{Name: "vx", Value: ast.Binary{Op: op, L: k, R: nm("vt")}}, x),
				wrap(ast.Assign{Name: "vx", Value: init}, ast.Assign{Name: "vy", Value: ast.Binary{Op: op, L: k, R: x}}, ast.Assign{Name: "vx", Value: nm("vy")}, x),
			}
			if r.Bool() {
				variants = [][]ast.Node{
					wrap(ast.Assign{Name: "vx", Value: init}, ast.Assign{Name: "vx", Value: ast.Binary{Op: op, L: x, R: k}}, x),
					wrap(ast.Assign{Name: "vx", Value: init}, ast.Assign{Name: "vt", Value: x}, ast.Assign{Name: "vx", Value: ast.Binary{Op: op, L: nm("vt"), R: k}}, x),
				}
			}
		}
	case 1: // e op e / t = e ; t op t   (e pure: no calls)
		kind = "common-subexpression"
		o2 := o
		o2.Closures = false
		g2 := gen.New(r, o2)
		e, et := pureExpr(g2, r)
		op := []string{"+", "*", "-", "==", "<", "&", "|"}[r.Intn(7)]
		variants = [][]ast.Node{
			wrap(ast.Assign{Name: "vq", Value: ast.IntLit{V: 1}}, ast.Binary{Op: op, L: e, R: e}),
			wrap(ast.Assign{Name: "vq", Value: ast.IntLit{V: 1}}, ast.Assign{Name: "vt", Value: e}, ast.Binary{Op: op, L: nm("vt"), R: nm("vt")}),
			wrap(ast.Assign{Name: "vq", Value: ast.IntLit{V: 1}}, ast.Binary{Op: "+", L: ast.Binary{Op: op, L: e, R: e}, R: ast.IntLit{V: 0}}),
		}
		if op == "==" || op == "<" || et.K != gen.TInt {
			variants = variants[:2]
		}
	case 2: // if !c A else B / if c B else A
		kind = "negated-if"
		c := g.Expr(gen.Bool, 2)
		t := []gen.Ty{gen.Int, gen.Str}[r.Intn(2)]
		a, b := g.Expr(t, 2), g.Expr(t, 2)
		variants = [][]ast.Node{
			wrap(ast.IntLit{V: 0}, ast.If{Cond: ast.Unary{Op: "!", X: c}, Then: a, Else: b}),
			wrap(ast.IntLit{V: 0}, ast.If{Cond: c, Then: b, Else: a}),
			wrap(ast.IntLit{V: 0}, ast.If{Cond: ast.Binary{Op: "==", L: c, R: ast.BoolLit{V: false}}, Then: a, Else: b}),
		}
	default: // while with negated condition
		kind = "negated-while"
		k := int64(r.Intn(6))
		body := func() ast.Node {
			return ast.Block{Stmts: []ast.Node{ast.Assign{Name: "vacc", Value: ast.Binary{Op: "+", L: nm("vacc"), R: ast.Binary{Op: "*", L: nm("vi"), R: ast.IntLit{V: 3}}}}, ast.Assign{Name: "vi", Value: ast.Binary{Op: "+", L: nm("vi"), R: ast.IntLit{V: 1}}}}}
		}
		pre := []ast.Node{ast.Assign{Name: "vi", Value: ast.IntLit{V: 0}}, ast.Assign{Name: "vacc", Value: ast.IntLit{V: 0}}}
		variants = [][]ast.Node{
			wrap(append(append([]ast.Node{}, pre...), ast.While{Cond: ast.Binary{Op: "<", L: nm("vi"), R: ast.IntLit{V: k}}, Body: body()}, nm("vacc"))...),
			wrap(append(append([]ast.Node{}, pre...), ast.While{Cond: ast.Unary{Op: "!", X: ast.Binary{Op: ">=", L: nm("vi"), R: ast.IntLit{V: k}}}, Body: body()}, nm("vacc"))...),
			wrap(append(append([]ast.Node{}, pre...), ast.While{Cond: ast.Binary{Op: "<", L: nm("vi"), R: ast.IntLit{V: k}}, Body: body()}, ast.Binary{Op: "+", L: nm("vacc"), R: ast.IntLit{V: 0}})...),
		}
	}
	res.Hash = core.HashString(fmt.Sprint(kind, inFn, sessionText(variants[0])))
	in := map[string]any{"kind": kind, "in_function": inFn}
	type ans struct {
		v         val.Value
		out, errc string
	}
	var first ans
	// reference for variant 0
	ref := rs.New()
	var w rs.Result
	for _, st := range variants[0] {
		w = ref.Exec(st)
		if w.Ambiguous != "" || w.Budget || w.TooBig {
			res.Verdict, res.Reason = core.Dropped, "outside the agreed region: "+w.Ambiguous
			return res
		}
		if w.Err != "" {
			break
		}
	}
	for i, vs := range variants {
		for _, doOut := range []bool{true, false} {
			v, out, errc, abort := runPlacement(nil, placement{Stmts: vs, DoOut: doOut})
			res.Add("placements_run", 1)
			res.Tag("rewrite:" + kind)
			got := ans{v, out, errc}
			bad := ""
			if abort != "" {
				bad = abort
			} else if i == 0 && doOut {
				first = got
				if errc != w.Err || out != w.Out || (w.Err == "" && !val.Same(v, w.Value)) {
					bad = fmt.Sprintf("differs from the reference: value %s error %q, reference %s %q", val.Debug(v), errc, val.Debug(w.Value), w.Err)
				}
			} else if got.errc != first.errc || got.out != first.out || (doOut && first.errc == "" && !val.Same(got.v, first.v)) {
				bad = fmt.Sprintf("variant %d (repl=%v) gives value %s output %q error %q; variant 0 gives %s %q %q", i, doOut, val.Debug(got.v), got.out, got.errc, val.Debug(first.v), first.out, first.errc)
			}
			if bad != "" {
				in["variant_0"] = sessionText(variants[0])
				in["variant"] = sessionText(vs)
				res.Verdict = core.Violated
				res.Viol = &core.Violation{Monitor: "rewrite", Detail: kind + ": " + bad, Input: in}
				return res
			}
		}
	}
	in["variants"] = [][]string{sessionText(variants[0]), sessionText(variants[1])}
	res.Verdict = core.Held
	res.Nontrivial = true
	res.Sample = in
	return res
}

func pureExpr(g *gen.G, r *core.Rng) (ast.Node, gen.Ty) {
	t := []gen.Ty{gen.Int, gen.Int, gen.Str, gen.ArrOf(gen.Int), gen.Bool}[r.Intn(5)]
	for tries := 0; tries < 20; tries++ {
		e := g.Expr(t, r.Range(1, 3))
		hasCall := false
		ast.Walk(e, func(n ast.Node) bool {
			switch n.(type) {
			case ast.Call, ast.FuncLit:
				hasCall = true
			}
			return true
		})
		if !hasCall {
			return e, t
		}
	}
	return ast.Binary{Op: "+", L: ast.Name{N: "vq"}, R: ast.IntLit{V: 2}}, gen.Int
}

// c12Cond: a non-boolean condition is a type error in every placement.
func c12Cond(_ *core.Ctx, idx int) core.Result {
	var res core.Result
	conds := []ast.Node{ast.IntLit{V: 0}, ast.IntLit{V: 1}, ast.FloatLit{V: 1.5}, ast.StrLit{V: "true"}, ast.StrLit{V: ""}, ast.ArrayLit{}, ast.ArrayLit{Elems: []ast.Node{ast.BoolLit{V: true}}},
		ast.FuncLit{Body: ast.BoolLit{V: true}}, ast.Binary{Op: "+", L: ast.IntLit{V: 1}, R: ast.IntLit{V: 1}}, ast.Name{N: "vnum"}, ast.Call{Fn: "toa", Args: []ast.Node{ast.BoolLit{V: true}}},
		ast.Binary{Op: "+", L: ast.Name{N: "vnum"}, R: ast.Name{N: "vnum"}}, ast.Index{X: ast.ArrayLit{Elems: []ast.Node{ast.IntLit{V: 1}}}, I: ast.IntLit{V: 0}}}
	bodies := []ast.Node{ast.IntLit{V: 5}, ast.Binary{Op: "+", L: ast.Name{N: "vnum"}, R: ast.IntLit{V: 1}}, ast.Assign{Name: "vz", Value: ast.IntLit{V: 1}}, ast.Call{Fn: "write", Args: []ast.Node{ast.StrLit{V: "RAN"}}},
		ast.Block{Stmts: []ast.Node{ast.IntLit{V: 1}, ast.IntLit{V: 2}}}}
	c := conds[idx%len(conds)]
	b := bodies[(idx/len(conds))%len(bodies)]
	form := idx / (len(conds) * len(bodies))
	neg := func(x ast.Node) ast.Node { return ast.Unary{Op: "!", X: x} }
	var st ast.Node
	var name string
	switch form % 8 {
	case 0:
		name, st = "if", ast.If{Cond: c, Then: b}
	case 1:
		name, st = "if-else", ast.If{Cond: c, Then: b, Else: ast.IntLit{V: 0}}
	case 2:
		name, st = "if-negated", ast.If{Cond: neg(c), Then: b}
	case 3:
		name, st = "if-else-negated", ast.If{Cond: neg(c), Then: ast.IntLit{V: 0}, Else: b}
	case 4:
		name, st = "while", ast.While{Cond: c, Body: ast.Block{Stmts: []ast.Node{b, ast.Return{X: ast.IntLit{V: 1}}}}}
	case 5:
		name, st = "while-negated", ast.While{Cond: neg(c), Body: ast.Block{Stmts: []ast.Node{b, ast.Return{X: ast.IntLit{V: 1}}}}}
	case 6:
		name, st = "if-mid-block", ast.Block{Stmts: []ast.Node{ast.If{Cond: c, Then: b}, ast.IntLit{V: 3}}}
	default:
		name, st = "if-in-loop-body", ast.For{Vars: []string{"vi"}, Iters: []ast.Node{ast.Call{Fn: "fromto", Args: []ast.Node{ast.IntLit{V: 0}, ast.IntLit{V: 2}}}}, Body: ast.If{Cond: c, Then: b}}
	}
	where := (form / 8) % 3
	var stmts []ast.Node
	pre := ast.Assign{Name: "vnum", Value: ast.IntLit{V: 4}}
	switch where {
	case 0:
		stmts = []ast.Node{pre, st}
	case 1:
		name += "/in-function"
		stmts = []ast.Node{pre, ast.Assign{Name: "vf", Value: ast.FuncLit{Body: st}}, ast.Call{Fn: "vf"}}
	default:
		name += "/in-function-mid"
		stmts = []ast.Node{pre, ast.Assign{Name: "vf", Value: ast.FuncLit{Body: ast.Block{Stmts: []ast.Node{st, ast.IntLit{V: 1}}}}}, ast.Call{Fn: "vf"}}
	}
	if d := ast.Denotable(stmts[len(stmts)-1]); d != "" {
		return core.Result{Verdict: core.Dropped, Reason: "not denotable"}
	}
	if fl, ok := stmts[1].(ast.Assign); ok {
		if d := ast.Denotable(fl.Value); d != "" {
			return core.Result{Verdict: core.Dropped, Reason: "not denotable"}
		}
	}
	res.Hash = core.HashString(fmt.Sprint(sessionText(stmts)))
	in := map[string]any{"placement": name, "session": sessionText(stmts)}
	for _, doOut := range []bool{true, false} {
		_, out, errc, abort := runPlacement(nil, placement{Stmts: stmts, DoOut: doOut})
		res.Add("placements_run", 1)
		res.Tag("cond:" + name)
		if abort != "" || errc != val.EType || strings.Contains(out, "RAN") {
			res.Verdict = core.Violated
			res.Viol = &core.Violation{Monitor: "condition-type", Detail: fmt.Sprintf("non-boolean condition in %s (repl=%v): error %q output %q %s — expected a type error and no execution of the body", name, doOut, errc, out, abort), Input: in}
			return res
		}
	}
	res.Verdict = core.Held
	res.Nontrivial = true
	res.Sample = in
	return res
}

// c12BoolCmp: a comparison with a boolean literal written as the whole condition of if / while means what it
// means anywhere else (for a non-boolean operand == is simply false, != true): the statement runs the branch the
// reference semantics picks, in every statement form and nesting.
var c12CmpOperands = []ast.Node{ast.IntLit{V: 0}, ast.IntLit{V: 1}, ast.FloatLit{V: 1.5}, ast.StrLit{V: "true"}, ast.StrLit{V: ""}, ast.ArrayLit{}, ast.ArrayLit{Elems: []ast.Node{ast.BoolLit{V: true}}},
	ast.Name{N: "vnum"}, ast.Call{Fn: "toa", Args: []ast.Node{ast.BoolLit{V: true}}}, ast.Binary{Op: "+", L: ast.Name{N: "vnum"}, R: ast.Name{N: "vnum"}}, ast.BoolLit{V: true}, ast.BoolLit{V: false}, ast.Name{N: "vyes"},
	ast.Binary{Op: "<", L: ast.Name{N: "vnum"}, R: ast.IntLit{V: 9}}}

const c12BoolCmpCount = 14 * 8 * 6 * 3

func c12BoolCmp(_ *core.Ctx, idx int) core.Result {
	v := c12CmpOperands[idx%len(c12CmpOperands)]
	k := (idx / len(c12CmpOperands)) % 8
	form := (idx / (len(c12CmpOperands) * 8)) % 6
	where := idx / (len(c12CmpOperands) * 8 * 6) % 3
	lit := ast.BoolLit{V: k&1 == 0}
	op := []string{"==", "!="}[(k>>1)&1]
	var c ast.Node = ast.Binary{Op: op, L: v, R: lit}
	if k&4 != 0 {
		c = ast.Binary{Op: op, L: lit, R: v}
	}
	ran, other := icall("write", ast.StrLit{V: "RAN"}), icall("write", ast.StrLit{V: "ELSE"})
	neg := func(x ast.Node) ast.Node { return ast.Unary{Op: "!", X: x} }
	var st ast.Node
	var name string
	switch form {
	case 0:
		name, st = "if", ast.If{Cond: c, Then: ran}
	case 1:
		name, st = "if-else", ast.If{Cond: c, Then: ran, Else: other}
	case 2:
		name, st = "if-else-negated", ast.If{Cond: neg(c), Then: other, Else: ran}
	case 3:
		name, st = "while", ast.While{Cond: c, Body: ast.Block{Stmts: []ast.Node{ran, ast.Return{X: ast.IntLit{V: 1}}}}}
	case 4:
		name, st = "while-negated", ast.While{Cond: neg(c), Body: ast.Block{Stmts: []ast.Node{ran, ast.Return{X: ast.IntLit{V: 1}}}}}
	default:
		name, st = "if-mid-block", ast.Block{Stmts: []ast.Node{ast.If{Cond: c, Then: ran}, ast.IntLit{V: 3}}}
	}
	stmts := []ast.Node{ast.Assign{Name: "vnum", Value: ast.IntLit{V: 4}}, ast.Assign{Name: "vyes", Value: ast.BoolLit{V: true}}}
	switch where {
	case 0:
		stmts = append(stmts, st)
	case 1:
		name += "/in-function"
		stmts = append(stmts, ast.Assign{Name: "vf", Value: ast.FuncLit{Body: st}}, icall("vf"))
	default:
		name += "/in-function-mid"
		body := []ast.Node{st, ast.IntLit{V: 1}}
		if b, ok := st.(ast.Block); ok {
			body = append(append([]ast.Node{}, b.Stmts...), ast.IntLit{V: 1})
		}
		stmts = append(stmts, ast.Assign{Name: "vf", Value: ast.FuncLit{Body: ast.Block{Stmts: body}}}, icall("vf"))
	}
	for _, doOut := range []bool{true, false} {
		opts := diffOpts{DoOut: doOut, Stress: "plain"}
		d := runDiff(stmts, opts)
		res := diffCase("C12", stmts, opts, d, map[string]any{"family": "boolcmp", "placement": name})
		if res.Verdict != core.Held || !doOut {
			if res.Verdict == core.Held {
				res.Add("placements_run", 2)
				res.Tag("boolcmp:" + name)
				res.Nontrivial = true
			}
			return res
		}
	}
	return core.Result{Verdict: core.Inconclusive, Reason: "unreachable"}
}

func init() {
	register(&core.Property{
		ID:          "C12",
		Rule:        "(1) typed expressions (all operators, calls, closures, writes through called functions, planted faults) embedded in ~35 placements: used/discarded, function tail/return/non-tail/mid-block, assignment, argument, array element (first and after constants), if arms incl. negated condition, while/for bodies at top level and in functions, yielded, top-level return, operand depth 1..3 via typed identity wrappers on either side, each compared with the reference answer for the plain expression; (2) rewrites x=x+1 / x=1+x / t=x;x=t+1, e op e / t=e;t op t, if !c A else B / if c B else A, while with negated condition, at top level and inside functions, REPL and script mode; (3) enumerated non-boolean conditions (13 values x 5 bodies x 8 statement forms x 3 nestings) must be type errors everywhere without running the body; (4) boolcmp: comparisons of 14 operands with a boolean literal (== / !=, either side) written as the whole condition of if / if-else / while in 3 nestings must pick the branch the reference picks, without error. non-trivial = expression of >= 3 nodes (1), every case (2,3); distinct by prelude+expression / variant text.",
		Assumptions: []string{"expressions whose plain evaluation the reference finds ambiguous or nil-valued are dropped"},
		Families: []core.Family{
			{Name: "expr", Count: countFn(5000, 150000), Run: c12Expr},
			{Name: "rewrite", Count: countFn(4000, 100000), Run: c12Rewrites},
			{Name: "cond", Count: func(string) int { return 13 * 5 * 8 * 3 }, Run: c12Cond},
			{Name: "boolcmp", Count: func(string) int { return c12BoolCmpCount }, Run: c12BoolCmp},
		},
		Floors: []core.Floor{{Key: "placements_run", Quick: 60000, Thor: 3000000}, {Key: "tag:placement:", Quick: 30, Thor: 30}, {Key: "tag:rewrite:", Quick: 6, Thor: 6}, {Key: "tag:cond:", Quick: 20, Thor: 20}, {Key: "nontrivial", Quick: 3000, Thor: 120000}},
	})
	core.CaseSeconds["C12/expr"] = 0.5
}
