package props

import (
	"fmt"
	"regexp"
	"strings"
	"time"

	"github.com/paulsonkoly/calc/combinator"
	"github.com/paulsonkoly/calc/parser"
	"github.com/paulsonkoly/calc/types/node"

	"verif/calcrun"
	"verif/core"
)

// C06 — the front end is total. Invariant hooks (lexer iteration bound,
// TLexer.Next bound) + span predicate + reportError under recover + the
// no-execution clause through processInput.

var caretRe = regexp.MustCompile(`^ *\^~*\^$`)

// c06Front runs Parse on one input and evaluates every front-end monitor.
func c06Front(input string, family string) core.Result {
	var res core.Result
	res.Hash = core.HashString(input)
	shown := input
	if len(shown) > 300 {
		shown = shown[:150] + fmt.Sprintf("...(%d bytes)...", len(input)) + shown[len(shown)-100:]
	}
	fail := func(mon, d string) core.Result {
		res.Verdict = core.Violated
		res.Viol = &core.Violation{Monitor: mon, Detail: d, Input: input}
		if len(input) > 4000 {
			res.Viol.Input = shown
		}
		return res
	}
	ast, perr, pan, hang, iters, nexts := calcrun.Parse(input)
	res.SetMax("lexer_iterations_per_parse", iters)
	res.SetMax("tlexer_next_calls_per_parse", nexts)
	res.SetMax("input_bytes", len(input))
	if len(input) > 0 {
		res.SetMax("lexer_iterations_per_byte_x100", iters*100/len(input))
		res.SetMax("tlexer_next_per_byte_x100", nexts*100/len(input))
	}
	if hang != "" {
		return fail("progress-bound", "front end does not terminate: "+hang)
	}
	if pan != nil {
		return fail("no-abort", fmt.Sprintf("parser.Parse panicked: %s (at %s)", pan.Msg, pan.Site))
	}
	if perr == nil {
		res.Add("accepted", 1)
		res.Verdict = core.Held
		res.Nontrivial = len(ast) > 0
		res.Tag("outcome:accepted")
		res.Sample = map[string]any{"family": family, "input": shown, "outcome": fmt.Sprintf("accepted, %d statements", len(ast))}
		return res
	}
	res.Add("rejected", 1)
	res.Tag("outcome:rejected")
	if strings.HasPrefix(perr.Msg, "Lexer") {
		res.Tag("outcome:lexer-error")
	}
	if !(0 <= perr.From && perr.From <= perr.To && perr.To <= len(input)) {
		return fail("error-span", fmt.Sprintf("error %q has span [%d,%d) outside the input of %d bytes", perr.Msg, perr.From, perr.To, len(input)))
	}
	// displaying the error
	var rpan any
	out := ""
	func() {
		defer func() { rpan = recover() }()
		out = calcrun.Capture(func() {
			node.VerifReportError(combinator.NewError(perr.Msg, perr.From, perr.To), input)
		})
	}()
	if rpan != nil {
		return fail("report-error", fmt.Sprintf("reportError panicked: %v (error %q span [%d,%d))", rpan, perr.Msg, perr.From, perr.To))
	}
	lines := strings.Split(strings.TrimSuffix(out, "\n"), "\n")
	if len(lines) < 3 || !strings.HasPrefix(out, perr.Msg) || !caretRe.MatchString(lines[len(lines)-1]) {
		return fail("report-error", fmt.Sprintf("unexpected error display %q", out))
	}
	res.Add("reports_displayed", 1)
	res.Verdict = core.Held
	res.Nontrivial = len(input) >= 2
	res.Sample = map[string]any{"family": family, "input": shown, "outcome": perr.Msg, "span": []int{perr.From, perr.To}}
	return res
}

// c06NoExec: valid statements followed by an erroneous tail, given to
// processInput as one input: nothing may be compiled, bound or printed but
// the error display.
func c06NoExec(ctx *core.Ctx, idx int) core.Result {
	r := core.CaseRng(ctx.Seed, "C06/noexec", idx)
	var res core.Result
	valid := []string{"x = 5", "write(\"LE\"+\"AK\")", "y = [1,2,3]", "f = (a) -> a + 1", "write(f(1))", "while false 1", "z = x", "for i <- fromto(0,3) write(\"LE\"+\"AK\")", "{\n q = 1\n write(\"LE\"+\"AK\")\n}"}
	bad := []string{"1 +", "(", "x = ", "if", "\"abc", "1 ; c", "12££12", "[1, 2", "f(1,", "else 2", "}", "a b", "1 1", "for i <- ", "x = = 2", "A", "1.2.3", "(a, b) ->", "while", "@", "return", "yield", "-", "#"}
	var sb strings.Builder
	k := r.Range(1, 4)
	for i := 0; i < k; i++ {
		sb.WriteString(valid[r.Intn(len(valid))])
		sb.WriteByte('\n')
	}
	sb.WriteString(bad[r.Intn(len(bad))])
	if r.Bool() {
		sb.WriteByte('\n')
	}
	input := sb.String()
	res.Hash = core.HashString(input)
	s := calcrun.NewSession()
	// a prefix session so that there is state to disturb
	s.Exec("x = 1\nf = (a) -> a\n", false)
	before := s.State()
	gb := fmt.Sprint(s.Globals())
	var pan any
	out := ""
	perrExpected := false
	if _, perr, p2, h2, _, _ := calcrun.Parse(input); perr != nil {
		perrExpected = true
	} else if p2 != nil || h2 != "" {
		res.Verdict = core.Inconclusive
		res.Reason = "front end aborted (reported by the front families)"
		return res
	}
	if !perrExpected {
		res.Verdict = core.Dropped
		res.Reason = "tail turned out valid"
		return res
	}
	func() {
		defer func() { pan = recover() }()
		out = calcrun.Capture(func() { node.VerifProcessInput(input, parser.Type{}, s.VM, r.Bool()) })
	}()
	if pan != nil {
		res.Verdict = core.Inconclusive
		res.Reason = "front end aborted (reported by the front families)"
		return res
	}
	after := s.State()
	ga := fmt.Sprint(s.Globals())
	if before != after || gb != ga || strings.Contains(out, "LEAK") || strings.HasPrefix(out, "> ") || strings.Contains(out, "\n> ") {
		res.Verdict = core.Violated
		res.Viol = &core.Violation{Monitor: "no-execution", Detail: fmt.Sprintf("input with a syntax error was partly executed: state %+v -> %+v, globals %s -> %s, output %q", before, after, gb, ga, out), Input: input}
		return res
	}
	res.Add("noexec_checked", 1)
	res.Verdict = core.Held
	res.Nontrivial = true
	res.Sample = map[string]any{"family": "noexec", "input": input, "display": out}
	return res
}

func nestText(kind, depth int) string {
	var open, close, core_ string
	switch kind {
	case 0:
		open, close, core_ = "(", ")", "1"
	case 1:
		open, close, core_ = "[", "]", "1"
	case 2:
		open, close, core_ = "{\n", "\n}", "1\n2"
	case 3:
		open, close, core_ = "-(", ")", "1"
	case 4:
		open, close, core_ = "f(", ")", "1"
	case 5:
		open, close, core_ = "() -> ", "", "1"
	case 6:
		open, close, core_ = "if true ", "", "1"
	case 7:
		open, close, core_ = "a[", "]", "0"
	case 8:
		open, close, core_ = "(", "", "1" // unbalanced
	case 9:
		open, close, core_ = "", ")", "1"
	case 10:
		open, close, core_ = "[", "", ""
	case 12: // blocks in which the nested construct is not the first statement
		open, close, core_ = "if true {\n0\n", "\n}", "1"
	case 13:
		open, close, core_ = "f = () -> {\nx = 1\n", "\n}", "x"
	case 14:
		open, close, core_ = "while false {\n1\n", "\n2\n}", "3"
	case 15:
		open, close, core_ = "for i <- fromto(0, 1) {\ni\n", "\n}", "i"
	default:
		open, close, core_ = "1+(", ")", "2"
	}
	return strings.Repeat(open, depth) + core_ + strings.Repeat(close, depth)
}

func init() {
	interesting := " \t\n;\"\\(){}[],:+-*/=<>!&|#%~0a.A@\x00\xff9z_'$"
	prefixTotal := func() int {
		n := 0
		for _, c := range corpus() {
			n += len(c) + 1
		}
		return n
	}
	prefixAt := func(k int) string {
		for _, c := range corpus() {
			if k <= len(c) {
				return c[:k]
			}
			k -= len(c) + 1
		}
		return ""
	}
	register(&core.Property{
		ID:          "C06",
		Rule:        "inputs: every prefix of every corpus program (thorough: all; quick: every 7th), uniform random bytes, alphabet-weighted token soup, corpus mutations (truncate, delete, duplicate, splice, one byte replaced by each of " + fmt.Sprint(len(interesting)) + " interesting bytes), bracket nesting of 16 kinds to depth 5000 (balanced and unbalanced), literals/names/operator runs up to 10^5 characters, and valid-statements + erroneous-tail inputs through processInput. non-trivial = parsed to >= 1 statement or rejected with a span; distinct by input text. Termination is decided as bounded progress: lexer iterations <= 4*len+64 and TLexer.Next calls <= 1000*(len+16) per parse (measured maxima are in measured_maxima).",
		Assumptions: []string{"nesting beyond depth 5000 is a Go stack-size resource limit and out of reach", "the error display is accepted when it starts with the message and ends with a caret line; messages that quote a multi-line token may span more than three lines"},
		Families: []core.Family{
			{Name: "prefix", Count: func(t string) int { return tierN(t, (prefixTotal()+6)/7, prefixTotal()) }, Run: func(ctx *core.Ctx, idx int) core.Result {
				k := idx
				if ctx.Tier != "thorough" {
					k = idx * 7
				}
				return c06Front(prefixAt(k), "prefix")
			}},
			{Name: "bytes", Count: countFn(60000, 2000000), Run: func(ctx *core.Ctx, idx int) core.Result {
				r := core.CaseRng(ctx.Seed, "C06/bytes", idx)
				b := make([]byte, r.Range(0, 40))
				for i := range b {
					if r.Chance(1, 3) {
						b[i] = byte(r.Intn(256))
					} else {
						b[i] = interesting[r.Intn(len(interesting))]
					}
				}
				return c06Front(string(b), "bytes")
			}},
			{Name: "soup", Count: countFn(90000, 3000000), Run: func(ctx *core.Ctx, idx int) core.Result {
				r := core.CaseRng(ctx.Seed, "C06/soup", idx)
				return c06Front(genLexText(r), "soup")
			}},
			{Name: "mutation", Count: countFn(90000, 3000000), Run: func(ctx *core.Ctx, idx int) core.Result {
				r := core.CaseRng(ctx.Seed, "C06/mutation", idx)
				cs := corpus()
				s := cs[r.Intn(len(cs))]
				if len(s) > 400 {
					a := r.Intn(len(s) - 400)
					s = s[a : a+400]
				}
				if r.Chance(1, 2) {
					b := []byte(s)
					if len(b) > 0 {
						b[r.Intn(len(b))] = interesting[r.Intn(len(interesting))]
					}
					s = string(b)
				} else {
					for k := r.Range(1, 3); k > 0; k-- {
						s = mutateText(r, s)
					}
				}
				return c06Front(s, "mutation")
			}},
			{Name: "nesting", Count: countFn(16*8, 16*40), Run: func(ctx *core.Ctx, idx int) core.Result {
				kind := idx % 16
				depths := []int{1, 2, 3, 10, 100, 1000, 2500, 5000}
				var depth int
				if idx/16 < len(depths) {
					depth = depths[idx/16]
				} else {
					depth = core.CaseRng(ctx.Seed, "C06/nesting", idx).Range(4, 5000)
				}
				res := c06Front(nestText(kind, depth), "nesting")
				res.SetMax("nesting_depth", depth)
				return res
			}},
			{Name: "bigliteral", Count: countFn(24, 60), Run: func(ctx *core.Ctx, idx int) core.Result {
				r := core.CaseRng(ctx.Seed, "C06/bigliteral", idx)
				n := []int{19, 20, 400, 100000}[idx%4]
				if idx >= 12 {
					n = r.Range(1, 100000)
				}
				var s string
				switch (idx / 4) % 6 {
				case 5: // a float literal with a long integer part (beyond 1.8e308 from 309 digits on)
					s = strings.Repeat("9", n) + ".5"
					if idx%8 < 4 {
						s = "x = [1, " + s + "]"
					}
				case 0:
					s = strings.Repeat("9", n)
				case 1:
					s = "1." + strings.Repeat("0", n) + "1"
				case 2:
					s = "\"" + strings.Repeat("a\\\"", n/3+1) + "\""
				case 3:
					s = strings.Repeat("q", n)
				default:
					s = "1 " + strings.Repeat("+", n) + " 2"
				}
				if idx%2 == 1 {
					s += "\n"
				}
				return c06Front(s, "bigliteral")
			}},
			{Name: "noexec", Count: countFn(1500, 100000), Run: c06NoExec},
			{Name: "evalnoexec", Count: countFn(150, 4000), Run: c06EvalNoExec},
		},
		Floors: []core.Floor{{Key: "accepted", Quick: 3000, Thor: 300000}, {Key: "rejected", Quick: 30000, Thor: 3000000}, {Key: "reports_displayed", Quick: 30000, Thor: 3000000}, {Key: "noexec_checked", Quick: 800, Thor: 50000}, {Key: "eval_noexec_checked", Quick: 100, Thor: 2500}, {Key: "tag:outcome:", Quick: 3, Thor: 3}},
	})
	core.CaseSeconds["C06/nesting"] = 2
	core.CaseSeconds["C06/bigliteral"] = 2
}

// c06EvalNoExec: the no-execution clause in -eval mode, on the real binary.
func c06EvalNoExec(ctx *core.Ctx, idx int) core.Result {
	r := core.CaseRng(ctx.Seed, "C06/evalnoexec", idx)
	var res core.Result
	bin := calcrun.CalcBinary()
	if bin == "" {
		return core.Result{Verdict: core.Inconclusive, Reason: "no calc binary (VERIF_CALC_BIN)"}
	}
	valid := []string{"write(\"LE\"+\"AK\")", "write(1+1)", "{\n write(\"LE\"+\"AK\")\n 2\n}", "for i <- fromto(0,2) write(\"LE\"+\"AK\")"}
	bad := []string{")", "1 +", "(", "\"abc", "12££12", "[1, 2", "}", "a b", "1.2.3", "@", "x = ", "else 2"}
	input := valid[r.Intn(len(valid))] + " " + bad[r.Intn(len(bad))]
	if r.Bool() {
		input = valid[r.Intn(len(valid))] + "\n" + bad[r.Intn(len(bad))]
	}
	res.Hash = core.HashString(input)
	if _, perr, pan, hang, _, _ := calcrun.Parse(input); perr == nil || pan != nil || hang != "" {
		return core.Result{Verdict: core.Dropped, Reason: "input turned out valid"}
	}
	p := calcrun.RunCalc(bin, []string{"-eval", input}, nil, "", 20*time.Second)
	if p.TimedOut {
		return core.Result{Verdict: core.Inconclusive, Reason: "watchdog"}
	}
	if p.Exit != 0 || strings.Contains(p.Stderr, "panic:") || strings.Contains(p.Stdout, "LEAK") || strings.Contains(p.Stdout, "2\n") && !strings.Contains(p.Stdout, "Parser") && !strings.Contains(p.Stdout, "Lexer") {
		res.Verdict = core.Violated
		res.Viol = &core.Violation{Monitor: "no-execution", Detail: fmt.Sprintf("-eval of an input with a syntax error: exit %d, stdout %q, stderr %q", p.Exit, trunc(p.Stdout, 300), trunc(p.Stderr, 200)), Input: input}
		return res
	}
	if strings.Contains(p.Stdout, "LEAK") {
		res.Verdict = core.Violated
		res.Viol = &core.Violation{Monitor: "no-execution", Detail: fmt.Sprintf("-eval executed part of an input with a syntax error: stdout %q", trunc(p.Stdout, 300)), Input: input}
		return res
	}
	res.Add("eval_noexec_checked", 1)
	res.Verdict = core.Held
	res.Nontrivial = true
	res.Sample = map[string]any{"family": "evalnoexec", "input": input, "stdout": trunc(p.Stdout, 200)}
	return res
}
