//go:build !skip_c15

package props

import (
	"fmt"

	"github.com/paulsonkoly/calc/types/bytecode"
	"github.com/paulsonkoly/calc/types/value"

	"verif/core"
)

// C15 — encodings are lossless and size limits are enforced, never wrapped.
// API level: exhaustive sweep of the operand field; every accepted encode must
// decode to exactly what went in with every other field zero; a refusal
// (panic of EncodeSrc) is the only alternative. History level (sessions that
// cross the addressing limits) lives in c15hist.go.

const c15AddrLo, c15AddrHi = -70000, 70000
const c15Block = 1000

func tryEncode(sel int, kind uint64, addr int) (t bytecode.Type, refused bool) {
	defer func() {
		if r := recover(); r != nil {
			refused = true
		}
	}()
	return bytecode.EncodeSrc(sel, kind, addr), false
}

func decodeAll(t bytecode.Type) (op bytecode.OpCode, kinds [3]uint64, addrs [3]int) {
	return t.OpCode(), [3]uint64{t.Src0(), t.Src1(), t.Src2()}, [3]int{t.Src0Addr(), t.Src1Addr(), t.Src2Addr()}
}

func c15Sweep(_ *core.Ctx, idx int) core.Result {
	var res core.Result
	lo := c15AddrLo + idx*c15Block
	hi := lo + c15Block
	if hi > c15AddrHi+1 {
		hi = c15AddrHi + 1
	}
	fail := func(in, d string) {
		if res.Verdict != core.Violated {
			res.Verdict = core.Violated
			res.Viol = &core.Violation{Monitor: "encode-roundtrip", Detail: in + ": " + d, Input: in}
		}
	}
	accepted, refused := 0, 0
	for addr := lo; addr < hi; addr++ {
		for sel := 0; sel < 3; sel++ {
			for kind := uint64(0); kind < 8; kind++ {
				in := fmt.Sprintf("EncodeSrc(sel=%d, kind=%d, addr=%d)", sel, kind, addr)
				t, ref := tryEncode(sel, kind, addr)
				if ref {
					refused++
					continue
				}
				accepted++
				op, ks, as := decodeAll(t)
				if op != 0 {
					fail(in, fmt.Sprintf("opcode field polluted: %v", op))
				}
				for s := 0; s < 3; s++ {
					if s == sel {
						if ks[s] != kind || as[s] != addr {
							fail(in, fmt.Sprintf("decodes to kind=%d addr=%d", ks[s], as[s]))
						}
					} else if ks[s] != 0 || as[s] != 0 {
						fail(in, fmt.Sprintf("operand %d polluted: kind=%d addr=%d", s, ks[s], as[s]))
					}
				}
			}
		}
	}
	res.Add("encodes_accepted", accepted)
	res.Add("encodes_refused", refused)
	if accepted > 0 {
		res.Tag("sweep:accepted")
	}
	if refused > 0 {
		res.Tag("sweep:refused")
	}
	if res.Verdict == "" {
		res.Verdict = core.Held
	}
	res.Hash = core.HashString(fmt.Sprint("sweep", idx))
	res.Nontrivial = true
	res.Sample = fmt.Sprintf("sweep addr %d..%d x sel 0..2 x kind 0..7: accepted %d refused %d", lo, hi-1, accepted, refused)
	return res
}

// c15Compose ORs an opcode and three operands together, as the compiler
// does, and decodes all seven fields.
func c15Compose(ctx *core.Ctx, idx int) core.Result {
	var res core.Result
	r := core.CaseRng(ctx.Seed, "C15/compose", idx)
	bound := []int{0, 1, -1, 2, 127, 128, 255, 256, 32766, 32767, -32767, -32768, 1000, -1000}
	pick := func() int {
		if r.Chance(2, 3) {
			return bound[r.Intn(len(bound))]
		}
		return r.Range(-32768, 32767)
	}
	op := bytecode.OpCode(r.Intn(128))
	if idx < 128 {
		op = bytecode.OpCode(idx)
	}
	var kinds [3]uint64
	var addrs [3]int
	in := fmt.Sprintf("New(%d)", op)
	t := bytecode.New(op)
	for s := 0; s < 3; s++ {
		kinds[s] = uint64(r.Intn(8))
		addrs[s] = pick()
		e, ref := tryEncode(s, kinds[s], addrs[s])
		in += fmt.Sprintf(" | EncodeSrc(%d,%d,%d)", s, kinds[s], addrs[s])
		if ref {
			res.Verdict = core.Violated
			res.Viol = &core.Violation{Monitor: "encode-roundtrip", Detail: in + ": an address inside the signed 16-bit range was refused", Input: in}
			return res
		}
		t |= e
	}
	gop, gk, ga := decodeAll(t)
	if gop != op || gk != kinds || ga != addrs {
		res.Verdict = core.Violated
		res.Viol = &core.Violation{Monitor: "encode-roundtrip", Detail: fmt.Sprintf("%s decodes to op=%d kinds=%v addrs=%v", in, gop, gk, ga), Input: in}
		return res
	}
	_ = t.String() // rendering an instruction must not fail either
	res.Verdict = core.Held
	res.Add("compositions", 1)
	res.Tag(fmt.Sprintf("opcode:%d", op))
	res.Hash = core.HashString(in)
	res.Nontrivial = true
	res.Sample = in
	return res
}

// c15Func checks the function value layout on the boundary lattice.
func c15Func(_ *core.Ctx, idx int) core.Result {
	var res core.Result
	nodes := []int{0, 1, 2, 255, 65535, 65536, 1 << 24, 1<<31 - 1, 1 << 31, 1<<32 - 1}
	cnts := []int{0, 1, 2, 255, 256, 32767, 32768, 65534, 65535}
	nd := nodes[idx%len(nodes)]
	pc := cnts[(idx/len(nodes))%len(cnts)]
	lc := cnts[(idx/len(nodes)/len(cnts))%len(cnts)]
	in := fmt.Sprintf("NewFunction(node=%d, params=%d, locals=%d)", nd, pc, lc)
	frame := []value.Type{value.NewInt(7)}
	f := value.NewFunction(nd, &frame, pc, lc)
	d, ok := f.ToFunction()
	if !ok || d.Node != nd || d.ParamCnt != pc || d.LocalCnt != lc || d.Frame != &frame {
		res.Verdict = core.Violated
		res.Viol = &core.Violation{Monitor: "function-layout", Detail: fmt.Sprintf("%s reads back node=%d params=%d locals=%d frame-kept=%v", in, d.Node, d.ParamCnt, d.LocalCnt, d.Frame == &frame), Input: in}
		return res
	}
	res.Verdict = core.Held
	res.Add("function_layouts", 1)
	res.Hash = core.HashString(in)
	res.Nontrivial = true
	res.Sample = in
	return res
}

func init() {
	nblocks := (c15AddrHi - c15AddrLo + 1 + c15Block - 1) / c15Block
	register(&core.Property{
		ID: "C15",
		Rule: "API level: every (operand slot 0..2) x (operand kind 0..7) x (address -70000..70000) through EncodeSrc, enumerated completely in both tiers (a case is a block of 1000 addresses = 24000 encodes); every opcode 0..127 with three random/boundary operands OR-composed and decoded; NewFunction/ToFunction on the full boundary lattice of (entry point, parameter count, local count). " +
			"History level: sessions whose data segment, jump distances and local counts cross the 2^15/2^16 addressing limits. distinct = distinct block/composition/layout/session text; all are non-trivial.",
		Assumptions: []string{"a panic of EncodeSrc is taken as 'refused' at API level; at session level a refusal must be a reported error with the process and session still usable"},
		Families: []core.Family{
			{Name: "sweep", Count: func(string) int { return nblocks }, Run: c15Sweep},
			{Name: "compose", Count: countFn(100000, 2000000), Run: c15Compose},
			{Name: "funclayout", Count: func(string) int { return 10 * 9 * 9 }, Run: c15Func},
			{Name: "history", Count: countFn(40, 120), Run: c15History},
			{Name: "longcode", Count: countFn(144, 1440), Run: c15LongCode},
		},
		Floors: []core.Floor{{Key: "encodes_accepted", Quick: 1000000, Thor: 1000000}, {Key: "encodes_refused", Quick: 100000, Thor: 100000}, {Key: "tag:opcode:", Quick: 128, Thor: 128}, {Key: "function_layouts", Quick: 810, Thor: 810}, {Key: "history_statements_worked", Quick: 500, Thor: 2500}, {Key: "history_statements_refused", Quick: 300, Thor: 1500}, {Key: "tag:history:", Quick: 4, Thor: 4}},
		Extra: func(a *core.Agg, cov map[string]any) {
			cov["exhaustive_subspaces"] = "sweep (3 x 8 x 140001 encodes) and funclayout are enumerated completely in both tiers"
		},
	})
}
