package props

import (
	"fmt"
	"sort"

	"verif/ast"
	"verif/calcrun"
	"verif/core"
	"verif/gen"
)

// C01 — compiled execution matches the definitional semantics.

func classesOf(g *gen.G) []string {
	var r []string
	for c := range g.Classes {
		r = append(r, "ctx:"+c)
	}
	sort.Strings(r)
	return r
}

// diffCase turns a differential outcome into a case result.
func diffCase(prop string, stmts []ast.Node, o diffOpts, d diffOutcome, extra map[string]any) core.Result {
	var res core.Result
	res.Hash = core.Mix(sessionHash(stmts) ^ core.HashString(fmt.Sprint(o.DoOut, o.Stress)))
	res.Verdict, res.Reason = d.Verdict, d.Reason
	res.Add("statements_compared", d.Executed)
	res.Add("rs_steps", d.Stats.Steps)
	res.Add("calls", d.Stats.Calls)
	res.Add("loop_iterations", d.Stats.LoopIters)
	res.Add("yields", d.Stats.Yields)
	res.Add("for_loops", d.Stats.ForLoops)
	res.Add("closures_created", d.Stats.Closures)
	res.Add("stack_growths", d.Grow)
	res.Add("context_clone_new", d.CloneNew)
	res.Add("context_clone_reuse", d.CloneReuse)
	res.SetMax("max_call_depth", d.Stats.MaxDepth)
	res.SetMax("max_vm_steps_per_statement", d.MaxVMSteps)
	for _, p := range d.Pairs {
		if p.RS.Err != "" {
			res.Tag("err:" + p.RS.Err)
		}
	}
	for _, s := range calcrun.Shapes() {
		res.Tag("shape:" + s)
	}
	mode := "script(discard)"
	if o.DoOut {
		mode = "repl(value)"
	}
	in := map[string]any{"session": sessionText(stmts), "mode": mode, "stress": o.Stress}
	for k, v := range extra {
		in[k] = v
	}
	if d.Verdict == core.Violated {
		res.Viol = &core.Violation{Monitor: d.Monitor, Detail: d.Detail, Input: in}
		info := &kfInfo{Stmts: stmts, Outcome: &d, Opts: o}
		if ids := core.KF().Attribute(prop, res.Viol, info); len(ids) > 0 {
			res.Verdict = core.Known
			res.KF = ids
		}
		return res
	}
	res.Nontrivial = d.Executed > 0 && d.Stats.Steps >= 25 && (d.Stats.Calls > 0 || d.Stats.LoopIters > 0)
	res.Sample = in
	return res
}

// kfInfo is what known-finding matchers may look at.
type kfInfo struct {
	Stmts   []ast.Node
	Outcome *diffOutcome
	Opts    diffOpts
}

func c01Gen(ctx *core.Ctx, idx int) core.Result {
	r := core.CaseRng(ctx.Seed, "C01/gen", idx)
	o := gen.DefaultOpts()
	o.MaxDepth = r.Range(1, 5)
	o.MaxStmts = r.Range(1, 5)
	if r.Chance(1, 3) {
		o.Faults = r.Range(1, 2)
	}
	g := gen.New(r, o)
	stmts := append(g.Helpers(), g.Session(r.Range(2, 8))...)
	opts := diffOpts{DoOut: idx%2 == 0, Stress: "plain", Residue: false}
	d := runDiff(stmts, opts)
	res := diffCase("C01", stmts, opts, d, nil)
	res.Tags = append(res.Tags, classesOf(g)...)
	return res
}

var stressModes = []string{"plain", "tight", "pregrown"}

// corpusCase runs directed session idx/(2*len(stressModes)) in one of the mode x stress combinations.
func corpusCase(prop string, idx int, residue bool) core.Result {
	cs := corpusSessions()
	per := 2 * len(stressModes)
	c := cs[idx/per]
	if c.Bad != "" {
		return core.Result{Verdict: core.Inconclusive, Reason: "corpus session " + c.Name + " has a statement the parser rejects"}
	}
	opts := diffOpts{DoOut: idx%2 == 0, Stress: stressModes[(idx/2)%len(stressModes)], Residue: residue}
	d := runDiff(c.Stmts, opts)
	res := diffCase(prop, c.Stmts, opts, d, map[string]any{"corpus": c.Name})
	res.Tag("corpus:" + c.Name)
	return res
}

func init() {
	register(&core.Property{
		ID:          "C01",
		Rule:        "sessions of 2..8 top-level statements from the typed generator (global values, function/generator/recursive definitions with closures, expressions over every operator and operand source, blocks, if/else, counted while loops, for loops over built-in and user generators, writes), each executed by the reference semantics and by the real parser->STRewrite->ByteCode|ByteCodeNoStck->VM pipeline (even indices REPL mode, odd indices script mode); value tree, output bytes and error class compared per statement. non-trivial = at least 25 reference evaluation steps and at least one call or loop iteration; distinct by session tree and mode.",
		Assumptions: []string{"the reference semantics (harness/rs) is the executable form of the README (DESIGN.md 4.2); programs that rely on something the README leaves open are detected by the reference itself and dropped (counted)", "float rendering is Go's shortest round-trip formatting"},
		Families: []core.Family{
			{Name: "corpus", Count: func(string) int { return len(corpusSessions()) * 2 * len(stressModes) }, Run: func(_ *core.Ctx, idx int) core.Result { return corpusCase("C01", idx, false) }},
			{Name: "gen", Count: countFn(16000, 1500000), Run: c01Gen},
		},
		Floors: []core.Floor{{Key: "statements_compared", Quick: 15000, Thor: 3000000}, {Key: "nontrivial", Quick: 2500, Thor: 500000}, {Key: "tag:shape:", Quick: 60, Thor: 80}, {Key: "tag:ctx:", Quick: 25, Thor: 25}},
	})
	core.MaxInconclusivePct["C01"] = 2
}
