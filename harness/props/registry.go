// Package props holds the per-property checks.
package props

import (
	"verif/core"
	"verif/val"
)

// documentedErrs are the error classes the Readme documents.
var documentedErrs = map[string]bool{val.ENil: true, val.EType: true, val.EZeroDiv: true, val.EIndex: true, val.EArity: true, val.EConversion: true, val.ERead: true}

var registry = map[string]*core.Property{}

func register(p *core.Property) { registry[p.ID] = p }

// Get returns the check of a property id.
func Get(id string) *core.Property { return registry[id] }

func tierN(tier string, quick, thorough int) int {
	if tier == "thorough" {
		return thorough
	}
	return quick
}

func countFn(quick, thorough int) func(string) int {
	return func(t string) int { return tierN(t, quick, thorough) }
}

func trunc(s string, n int) string {
	if len(s) > n {
		return s[:n] + "..."
	}
	return s
}
