//go:build !skip_c18

package props

import (
	"fmt"
	"strings"

	"verif/ast"
	"verif/gen"

	"github.com/paulsonkoly/calc/memory"
	"github.com/paulsonkoly/calc/types/value"

	"verif/calcrun"
	"verif/core"
	"verif/val"
)

// C18 — frames are isolated under any growth. Model-conformance monitor over
// VM-legal operation histories on the real memory.Type, in plain and tight
// allocation modes. Every written value is unique, so a wrong read names the
// write it came from.

type mFrame struct {
	id      int
	locals  []val.Value
	ip      val.Value
	scratch []val.Value
	alive   bool
}

type mClosure struct {
	fr   *mFrame     // alias of a live frame, or
	snap []val.Value // a detached copy (taken when the definer returned), or empty frame
}

type mMem struct {
	name     string
	real     *memory.Type
	base     []val.Value // operand stack below every frame (main) — empty for clones of a frame
	frames   []*mFrame
	ownFrom  int // frames[ownFrom:] were pushed by this memory itself
	closures []mClosure
	finished bool
	parent   *mMem
	depthAt  int // parent's frame count when this clone was forked
	children []*mMem
}

type mAlias struct {
	real  *memory.Frame
	fr    *mFrame
	owner *mMem
}

type c18run struct {
	r       *core.Rng
	mems    []*mMem
	aliases []mAlias
	globals map[string]val.Value
	next    int64
	nframe  int
	ops     []string
	res     *core.Result
	bad     string
	widths  []int
}

func (h *c18run) fresh() val.Value { h.next++; return val.IntV(h.next) }

func (h *c18run) log(f string, a ...any) {
	if len(h.ops) < 4000 {
		h.ops = append(h.ops, fmt.Sprintf(f, a...))
	}
}

func (h *c18run) lastOp() string {
	if len(h.ops) == 0 {
		return "start"
	}
	return h.ops[len(h.ops)-1]
}

func (h *c18run) live() []*mMem {
	var r []*mMem
	for _, m := range h.mems {
		if !m.finished {
			r = append(r, m)
		}
	}
	return r
}

func (m *mMem) top() *mFrame {
	if len(m.frames) == 0 {
		return nil
	}
	return m.frames[len(m.frames)-1]
}

func (m *mMem) scratch() *[]val.Value {
	if t := m.top(); t != nil {
		return &t.scratch
	}
	return &m.base
}

func (h *c18run) finish(m *mMem) {
	for _, c := range m.children {
		if !c.finished {
			h.finish(c)
		}
	}
	m.finished = true
	for _, f := range m.frames[m.ownFrom:] {
		f.alive = false
	}
	if m.ownFrom == 1 {
		m.frames[0].alive = false
	}
}

func eqv(a value.Type, b val.Value) bool { return val.Same(calcrun.FromCalc(a), b) }

// observe compares every observer of every live memory and every live alias
// with the model.
func (h *c18run) observe(after string) {
	if h.bad != "" {
		return
	}
	for _, m := range h.live() {
		if m.real.CallDepth() != len(m.frames) {
			h.bad = fmt.Sprintf("after %s: %s CallDepth()=%d, model %d", after, m.name, m.real.CallDepth(), len(m.frames))
			return
		}
		sp := len(m.base)
		for _, f := range m.frames {
			sp += len(f.locals) + 1 + len(f.scratch)
		}
		if m.real.VerifSP() != sp {
			h.bad = fmt.Sprintf("after %s: %s stack pointer %d, model %d", after, m.name, m.real.VerifSP(), sp)
			return
		}
		if t := m.top(); t != nil {
			w := len(t.locals)
			check := func(i int) bool {
				if got := m.real.LookUpLocal(i); !eqv(got, t.locals[i]) {
					h.bad = fmt.Sprintf("after %s: %s local %d of frame #%d (width %d, depth %d) reads %s, last written %s", after, m.name, i, t.id, w, len(m.frames), val.Debug(calcrun.FromCalc(got)), val.Debug(t.locals[i]))
					return false
				}
				return true
			}
			if w <= 12 {
				for i := 0; i < w; i++ {
					if !check(i) {
						return
					}
				}
			} else {
				for _, i := range []int{0, 1, w / 2, w - 2, w - 1, h.r.Intn(w), h.r.Intn(w)} {
					if !check(i) {
						return
					}
				}
			}
			tp := m.real.Top()
			if len(tp) != w {
				h.bad = fmt.Sprintf("after %s: %s Top() has %d slots, frame width %d", after, m.name, len(tp), w)
				return
			}
			if ipp := m.real.IP(); ipp == nil || !eqv(*ipp, t.ip) {
				h.bad = fmt.Sprintf("after %s: %s IP() of frame #%d wrong", after, m.name, t.id)
				return
			}
		}
		if n := len(m.closures); n > 0 {
			c := m.closures[n-1]
			var want []val.Value
			ok := true
			if c.fr != nil {
				ok = c.fr.alive
				want = c.fr.locals
			} else {
				want = c.snap
			}
			if ok {
				for i := range want {
					if len(want) > 12 && i != 0 && i != len(want)-1 && i != len(want)/2 {
						continue
					}
					if got := m.real.LookUpClosure(i); !eqv(got, want[i]) {
						h.bad = fmt.Sprintf("after %s: %s captured variable %d reads %s, its activation holds %s", after, m.name, i, val.Debug(calcrun.FromCalc(got)), val.Debug(want[i]))
						return
					}
				}
			}
		}
		for k, v := range h.globals {
			if got := m.real.LookUpGlobal(k); !eqv(got, v) {
				h.bad = fmt.Sprintf("after %s: %s global %s reads %s, last written %s", after, m.name, k, val.Debug(calcrun.FromCalc(got)), val.Debug(v))
				return
			}
		}
	}
	for _, a := range h.aliases {
		if !a.fr.alive || a.owner.finished {
			continue
		}
		for i, want := range a.fr.locals {
			if len(a.fr.locals) > 12 && i != 0 && i != len(a.fr.locals)-1 {
				continue
			}
			if len(*a.real) != len(a.fr.locals) {
				h.bad = fmt.Sprintf("after %s: frame header of live frame #%d has %d slots, frame width %d", after, a.fr.id, len(*a.real), len(a.fr.locals))
				return
			}
			if !eqv((*a.real)[i], want) {
				h.bad = fmt.Sprintf("after %s: frame alias (Top()) of live frame #%d slot %d reads %s, the frame holds %s", after, a.fr.id, i, val.Debug(calcrun.FromCalc((*a.real)[i])), val.Debug(want))
				return
			}
		}
	}
}

func (h *c18run) width() int {
	switch h.r.Intn(10) {
	case 0, 1, 2:
		return h.r.Range(0, 6)
	case 3, 4:
		return h.r.Range(120, 132)
	case 5:
		return h.r.Range(250, 260)
	case 6:
		return h.r.Range(7, 600)
	default:
		return h.r.Range(0, 20)
	}
}

func (h *c18run) step() {
	lv := h.live()
	m := lv[len(lv)-1]
	if h.r.Chance(1, 3) {
		m = lv[h.r.Intn(len(lv))]
	}
	sc := m.scratch()
	switch h.r.Pick(22, 10, 12, 9, 12, 10, 5, 6, 6, 3, 1, 4) {
	case 0: // push
		n := 1
		if h.r.Chance(1, 12) {
			n = h.r.Range(2, 140)
		}
		for i := 0; i < n; i++ {
			v := h.fresh()
			m.real.Push(calcrun.ToCalc(v))
			*sc = append(*sc, v)
		}
		h.log("%s.push*%d", m.name, n)
		h.res.Add("op_push", n)
	case 1: // pop
		if len(*sc) == 0 {
			return
		}
		want := (*sc)[len(*sc)-1]
		*sc = (*sc)[:len(*sc)-1]
		got := m.real.Pop()
		h.log("%s.pop", m.name)
		if !eqv(got, want) {
			h.bad = fmt.Sprintf("%s.Pop() returned %s, last pushed %s", m.name, val.Debug(calcrun.FromCalc(got)), val.Debug(want))
		}
		h.res.Add("op_pop", 1)
	case 2: // call
		if len(m.frames) > 300 {
			return
		}
		n := h.r.Range(0, 3)
		for len(*sc) < n {
			v := h.fresh()
			m.real.Push(calcrun.ToCalc(v))
			*sc = append(*sc, v)
		}
		w := n + h.width()
		// choose the function value being called: its closure frame
		var cl mClosure
		var clReal *memory.Frame
		cands := []int{}
		for i, a := range h.aliases {
			if a.fr.alive && !a.owner.finished {
				cands = append(cands, i)
			}
		}
		if len(cands) > 0 && h.r.Chance(2, 3) {
			a := h.aliases[cands[h.r.Intn(len(cands))]]
			cl, clReal = mClosure{fr: a.fr}, a.real
		} else {
			var empty memory.Frame
			cl, clReal = mClosure{}, &empty
		}
		m.real.PushFrame(n, w)
		m.real.PushClosure(clReal)
		ip := h.fresh()
		m.real.Push(calcrun.ToCalc(ip))
		h.nframe++
		f := &mFrame{id: h.nframe, locals: make([]val.Value, w), ip: ip, alive: true}
		copy(f.locals, (*sc)[len(*sc)-n:])
		*sc = (*sc)[:len(*sc)-n]
		m.frames = append(m.frames, f)
		m.closures = append(m.closures, cl)
		h.log("%s.call(args=%d,width=%d)#%d", m.name, n, w, f.id)
		h.res.Add("op_call", 1)
		h.res.SetMax("max_depth", len(m.frames))
		h.res.SetMax("max_width", w)
		h.widths = append(h.widths, w)
	case 3: // return
		if len(m.frames) <= m.ownFrom {
			return
		}
		for _, c := range m.children {
			if !c.finished && c.depthAt >= len(m.frames) {
				h.finish(c)
			}
		}
		t := m.top()
		v := h.fresh()
		ipp := m.real.IP()
		if ipp == nil || !eqv(*ipp, t.ip) {
			h.bad = fmt.Sprintf("%s.IP() at return from frame #%d is not the pushed return address", m.name, t.id)
			return
		}
		m.real.PopFrame()
		m.real.PopClosure()
		m.real.Push(calcrun.ToCalc(v))
		t.alive = false
		m.frames = m.frames[:len(m.frames)-1]
		m.closures = m.closures[:len(m.closures)-1]
		sc = m.scratch()
		*sc = append(*sc, v)
		h.log("%s.ret#%d", m.name, t.id)
		h.res.Add("op_return", 1)
	case 4: // set local
		t := m.top()
		if t == nil || len(t.locals) == 0 {
			return
		}
		i := h.r.Intn(len(t.locals))
		if h.r.Chance(1, 3) {
			i = len(t.locals) - 1
		}
		v := h.fresh()
		m.real.Set(i, calcrun.ToCalc(v))
		t.locals[i] = v
		h.log("%s.set(%d)", m.name, i)
		h.res.Add("op_set", 1)
	case 5: // make function: alias of the top frame
		t := m.top()
		if t == nil || len(h.aliases) > 40 {
			return
		}
		h.aliases = append(h.aliases, mAlias{real: m.real.TopRef(), fr: t, owner: m})
		h.log("%s.func(alias#%d)", m.name, t.id)
		h.res.Add("op_alias", 1)
	case 6: // global
		k := string(rune('a' + h.r.Intn(4)))
		v := h.fresh()
		m.real.SetGlobal(k, calcrun.ToCalc(v))
		h.globals[k] = v
		h.log("%s.setglobal(%s)", m.name, k)
		h.res.Add("op_global", 1)
	case 7: // clone
		if len(lv) >= 9 {
			return
		}
		var reuse *mMem
		var fin []*mMem
		for _, x := range h.mems {
			if x.finished && x.parent != nil {
				fin = append(fin, x)
			}
		}
		if len(fin) > 0 && h.r.Chance(3, 4) {
			reuse = fin[h.r.Intn(len(fin))]
		}
		var child *mMem
		var real *memory.Type
		if reuse != nil {
			real = m.real.Clone(reuse.real)
			// the recycled memory object now is the new child
			for i, x := range h.mems {
				if x == reuse {
					h.mems = append(h.mems[:i], h.mems[i+1:]...)
					break
				}
			}
			h.res.Add("op_clone_reuse", 1)
		} else {
			real = m.real.Clone(nil)
			h.res.Add("op_clone_new", 1)
		}
		child = &mMem{name: fmt.Sprintf("m%d", len(h.ops)), real: real, parent: m, depthAt: len(m.frames)}
		if t := m.top(); t != nil {
			h.nframe++
			cf := &mFrame{id: h.nframe, locals: append([]val.Value{}, t.locals...), ip: t.ip, scratch: append([]val.Value{}, t.scratch...), alive: true}
			child.frames = []*mFrame{cf}
			child.ownFrom = 1
		}
		child.closures = append([]mClosure{}, m.closures...)
		m.children = append(m.children, child)
		h.mems = append(h.mems, child)
		h.log("%s.clone(reuse=%v)->%s", m.name, reuse != nil, child.name)
	case 8: // finish a clone
		if m.parent == nil {
			return
		}
		h.finish(m)
		h.log("%s.finish", m.name)
		h.res.Add("op_finish", 1)
	case 9: // top-level return on an empty frame stack: ResetSP + Push
		if len(m.frames) != 0 || m.parent != nil {
			return
		}
		v := h.fresh()
		m.real.ResetSP()
		m.real.Push(calcrun.ToCalc(v))
		m.base = []val.Value{v}
		h.log("%s.resetsp", m.name)
		h.res.Add("op_resetsp", 1)
	case 10: // error path: Reset on the main memory
		main := h.mems[0]
		for _, c := range main.children {
			if !c.finished {
				h.finish(c)
			}
		}
		main.real.Reset()
		for _, f := range main.frames {
			f.alive = false
		}
		main.frames, main.closures, main.base = nil, nil, nil
		h.log("main.reset")
		h.res.Add("op_reset", 1)
	case 11: // read locals through the lookups (also done by observe)
		h.res.Add("op_read", 1)
	}
}

func c18History(ctx *core.Ctx, idx int, tight bool) core.Result {
	fam := "plain"
	if tight {
		fam = "tight"
	}
	r := core.CaseRng(ctx.Seed, "C18/"+fam, idx)
	var res core.Result
	memory.VerifTight = tight
	memory.VerifCnt = memory.VerifCounters{}
	defer func() { memory.VerifTight = false }()
	h := &c18run{r: r, globals: map[string]val.Value{}, res: &res}
	h.mems = []*mMem{{name: "main", real: memory.New()}}
	nops := r.Range(20, 400)
	var pan any
	func() {
		defer func() { pan = recover() }()
		for i := 0; i < nops && h.bad == ""; i++ {
			h.step()
			if h.bad == "" {
				h.observe(h.lastOp())
			}
		}
	}()
	if pan != nil {
		h.bad = fmt.Sprintf("panic after %s: %v", h.lastOp(), pan)
	}
	res.Add("grow_events", memory.VerifCnt.Grow)
	res.Add("history_ops", len(h.ops))
	if memory.VerifCnt.Grow > 0 {
		res.Add("histories_with_growth", 1)
	}
	if h.bad != "" {
		tailOps := h.ops
		if len(tailOps) > 60 {
			tailOps = tailOps[len(tailOps)-60:]
		}
		res.Verdict = core.Violated
		res.Viol = &core.Violation{Monitor: "memory-model", Detail: h.bad, Input: map[string]any{"mode": fam, "ops_tail": strings.Join(tailOps, " ")}}
		return res
	}
	res.Verdict = core.Held
	res.Hash = core.HashString(fam + strings.Join(h.ops, " "))
	res.Nontrivial = res.Count["op_call"] >= 2 && res.Count["op_set"] >= 1
	s := h.ops
	if len(s) > 40 {
		s = s[:40]
	}
	res.Sample = map[string]any{"family": fam, "ops_head": strings.Join(s, " "), "ops": len(h.ops), "grow_events": memory.VerifCnt.Grow}
	return res
}

// c18Lang: language-level reach of the same property: name-pressure programs
// (every variable kind at once, zipped loops over existing and new variables)
// and wide-frame / deep-recursion programs against the reference semantics
// under plain, tight and pregrown allocation.
func c18Lang(ctx *core.Ctx, idx int) core.Result {
	r := core.CaseRng(ctx.Seed, "C18/lang", idx)
	var stmts []ast.Node
	kind := "scope"
	if idx%3 == 2 {
		kind = "wide-deep"
		defs, call, _ := pureFunction(r)
		stmts = append(stmts, defs...)
		// the call at several depths, with writes of locals in between
		stmts = append(stmts,
			ast.Assign{Name: "zat", Value: ast.FuncLit{Params: []string{"d"}, Body: ast.If{Cond: ast.Binary{Op: "<=", L: nm("d"), R: il(0)}, Then: call, Else: ast.Block{Stmts: []ast.Node{
				ast.Assign{Name: "keep", Value: ast.Binary{Op: "*", L: nm("d"), R: il(3)}},
				ast.Assign{Name: "got", Value: icall("zat", ast.Binary{Op: "-", L: nm("d"), R: il(1)})},
				ast.ArrayLit{Elems: []ast.Node{nm("keep"), nm("d"), nm("got")}}}}}}})
		for _, d := range []int64{0, 1, 40, 43, 130, int64(r.Range(2, 300))} {
			stmts = append(stmts, ast.Index{X: icall("zat", il(d)), I: il(0)}, ast.Unary{Op: "#", X: toa(icall("zat", il(d)))})
		}
	} else if idx%12 == 7 {
		// recursion depth is limited only by memory: 10^4..3*10^4 frames, locals kept across the call
		kind = "very-deep"
		d := int64(r.Range(10000, 30000))
		stmts = []ast.Node{
			ast.Assign{Name: "zsum", Value: ast.FuncLit{Params: []string{"n"}, Body: ast.If{Cond: ast.Binary{Op: "<=", L: nm("n"), R: il(0)}, Then: il(0), Else: ast.Block{Stmts: []ast.Node{
				ast.Assign{Name: "mine", Value: ast.Binary{Op: "*", L: nm("n"), R: il(2)}},
				ast.Assign{Name: "below", Value: icall("zsum", ast.Binary{Op: "-", L: nm("n"), R: il(1)})},
				ast.Binary{Op: "+", L: ast.Binary{Op: "-", L: nm("mine"), R: nm("n")}, R: nm("below")}}}}}},
			ast.Assign{Name: "zra", Value: icall("zsum", il(d))},
			ast.Assign{Name: "zrb", Value: icall("zsum", il(d/2))},
		}
	} else {
		stmts = gen.ScopeProgram(r)
	}
	// the kind is a function of idx%12: the mode is drawn, not derived from idx
	opts := diffOpts{DoOut: r.Chance(2, 3), Stress: stressModes[r.Intn(len(stressModes))], Residue: true, Globals: true, Marker: "DIFF:"}
	if kind == "very-deep" && opts.Stress == "tight" {
		opts.Stress = "plain" // tight reallocates on every push: quadratic at this depth
	}
	d := runDiff(stmts, opts)
	res := diffCase("C18", stmts, opts, d, map[string]any{"family": "lang/" + kind})
	res.Tag("lang:" + kind)
	res.Add("language_level_statements", d.Executed)
	return res
}

func init() {
	register(&core.Property{
		ID:          "C18",
		Rule:        "VM-legal operation histories (20..400 ops) on the real memory.Type: push/pop, call = PushFrame+PushClosure+Push(ip) with 0..3 arguments and frame widths 0..600 concentrated on 120..132 and 250..260, return = IP+PopFrame+PopClosure+Push, Set/LookUpLocal, Top() aliases kept while their frame lives, globals, Clone(nil | finished clone in any state) with interleaved work on up to 9 memories, finishing clones, ResetSP, Reset. After every op every observer of every live memory and every live alias is compared with a model in which each activation is an independent record; every written value is unique. Run in plain mode and in tight mode (every growth moves the array). non-trivial = at least 2 calls and a local write; distinct by op list. Language level: name-pressure sessions (as in C04, incl. zipped loops whose variables mix existing and new locals) and wide-frame/closure functions called at recursion depths 0..300 with locals written around the call, against the reference under plain/tight/pregrown allocation.",
		Assumptions: []string{"the op generator is restricted to sequences the VM can produce (DESIGN.md 6/C18); reads through aliases of returned frames are not generated", "tight mode only changes how much a growth adds, which append may do at any time"},
		Families: []core.Family{
			{Name: "plain", Count: countFn(12000, 1200000), Run: func(c *core.Ctx, i int) core.Result { return c18History(c, i, false) }},
			{Name: "tight", Count: countFn(12000, 1200000), Run: func(c *core.Ctx, i int) core.Result { return c18History(c, i, true) }},
			{Name: "lang", Count: countFn(2400, 240000), Run: c18Lang},
			{Name: "params", Count: countFn(1200, 60000), Run: func(ctx *core.Ctx, idx int) core.Result { return dupParamCase("C18", ctx, idx) }},
			{Name: "deeploops", Count: countFn(48, 1200), Run: func(ctx *core.Ctx, idx int) core.Result { return depthCase("C18", ctx, idx) }},
		},
		Floors: []core.Floor{{Key: "history_ops", Quick: 2000000, Thor: 200000000}, {Key: "grow_events", Quick: 20000, Thor: 2000000}, {Key: "op_clone_reuse", Quick: 5000, Thor: 500000}, {Key: "op_alias", Quick: 50000, Thor: 5000000}, {Key: "language_level_statements", Quick: 10000, Thor: 1000000}, {Key: "tag:lang:", Quick: 3, Thor: 3}, {Key: "nontrivial", Quick: 15000, Thor: 1500000}},
	})
}
