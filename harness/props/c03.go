package props

import (
	"fmt"

	"verif/ast"
	"verif/calcrun"
	"verif/core"
	"verif/gen"
	"verif/rs"
	"verif/val"
)

// C03 — functions are pure. Metamorphic monitor: within ONE session a
// side-effect-free function is called with equal arguments in many dynamic
// contexts and after many histories; every call must render the same (or fail
// with the same error class), and agree with the reference semantics.

func icall(fn string, args ...ast.Node) ast.Node { return ast.Call{Fn: fn, Args: args} }
func il(v int64) ast.Node                        { return ast.IntLit{V: v} }

// pureFunction returns the statements defining global `pf` (and helpers) and
// the call expression rendering its result.
func pureFunction(r *core.Rng) (defs []ast.Node, callExpr ast.Node, kind string) {
	deep := ast.Assign{Name: "pdeep", Value: ast.FuncLit{Params: []string{"n"}, Body: ast.If{Cond: ast.Binary{Op: "<=", L: nm("n"), R: il(0)}, Then: il(0), Else: ast.Binary{Op: "+", L: il(1), R: icall("pdeep", ast.Binary{Op: "-", L: nm("n"), R: il(1)})}}}}
	switch r.Intn(13) {
	case 12: // a loop whose iterator expressions read locals from every part of a small frame
		kind = "loop-reading-many-locals"
		nl := r.Range(4, 9)
		var ss []ast.Node
		for i := 0; i < nl; i++ {
			ss = append(ss, ast.Assign{Name: wideName(i), Value: ast.Binary{Op: "+", L: nm("n"), R: il(int64(i + 1))}})
		}
		pick := func() ast.Node { return nm(wideName(r.Intn(nl))) }
		ss = append(ss, ast.Assign{Name: "c", Value: il(0)},
			ast.For{Vars: []string{"i", "j"}, Iters: []ast.Node{icall("fromto", pick(), ast.Binary{Op: "+", L: pick(), R: il(3)}), icall("fromto", pick(), ast.Binary{Op: "+", L: pick(), R: pick()})},
				Body: ast.Assign{Name: "c", Value: ast.Binary{Op: "+", L: nm("c"), R: ast.Binary{Op: "*", L: nm("i"), R: nm("j")}}}},
			ast.For{Vars: []string{"k"}, Iters: []ast.Node{icall("elems", ast.ArrayLit{Elems: []ast.Node{pick(), pick(), pick()}})}, Body: ast.Assign{Name: "c", Value: ast.Binary{Op: "+", L: nm("c"), R: nm("k")}}})
		var all []ast.Node
		for i := 0; i < nl; i++ {
			all = append(all, nm(wideName(i)))
		}
		ss = append(ss, ast.ArrayLit{Elems: append([]ast.Node{nm("c")}, all...)})
		defs = []ast.Node{ast.Assign{Name: "pf", Value: ast.FuncLit{Params: []string{"n"}, Body: ast.Block{Stmts: ss}}}}
		return defs, toa(icall("pf", il(int64(r.Range(0, 9))))), kind
	case 11: // closures that leave their call through yield (the call itself returns a number), called again after the context was recycled
		kind = "yielded-closures"
		body := ast.Block{Stmts: []ast.Node{
			ast.Assign{Name: "mk", Value: ast.FuncLit{Params: []string{"a"}, Body: ast.Block{Stmts: []ast.Node{
				ast.Assign{Name: "x", Value: ast.Binary{Op: "*", L: nm("a"), R: il(3)}},
				ast.Yield{X: ast.FuncLit{Body: nm("x")}},
				ast.Assign{Name: "x", Value: ast.Binary{Op: "+", L: nm("x"), R: il(1)}},
				ast.Yield{X: ast.FuncLit{Body: ast.ArrayLit{Elems: []ast.Node{nm("x"), nm("a")}}}},
				il(7)}}}},
			ast.Assign{Name: "hs", Value: ast.ArrayLit{}},
			ast.For{Vars: []string{"g"}, Iters: []ast.Node{icall("mk", nm("n"))}, Body: ast.Assign{Name: "hs", Value: ast.Binary{Op: "+", L: nm("hs"), R: ast.ArrayLit{Elems: []ast.Node{nm("g")}}}}},
			ast.Assign{Name: "ga", Value: ast.Index{X: nm("hs"), I: il(0)}},
			ast.Assign{Name: "gb", Value: ast.Index{X: nm("hs"), I: il(1)}},
			ast.Assign{Name: "before", Value: ast.ArrayLit{Elems: []ast.Node{icall("ga"), icall("gb")}}},
			ast.For{Vars: []string{"i", "j"}, Iters: []ast.Node{icall("fromto", il(100), il(103)), icall("elems", ast.StrLit{V: "uvw"})}, Body: nm("i")},
			ast.Assign{Name: "t", Value: icall("pdeep", il(int64(r.Range(3, 40))))},
			ast.ArrayLit{Elems: []ast.Node{nm("before"), icall("ga"), icall("gb")}},
		}}
		defs = []ast.Node{deep, ast.Assign{Name: "pf", Value: ast.FuncLit{Params: []string{"n"}, Body: body}}}
		return defs, toa(icall("pf", il(int64(r.Range(1, 9))))), kind
	case 10: // a loop as the last statement of the function; the call that matters runs it zero times (the value is nil)
		kind = "loop-tail-possibly-empty"
		var body ast.Node
		switch r.Intn(3) {
		case 0:
			body = ast.For{Vars: []string{"i"}, Iters: []ast.Node{icall("fromto", il(0), nm("n"))}, Body: ast.Binary{Op: "*", L: nm("i"), R: il(2)}}
		case 1:
			body = ast.Block{Stmts: []ast.Node{ast.Assign{Name: "k", Value: nm("n")}, ast.While{Cond: ast.Binary{Op: ">", L: nm("k"), R: il(0)}, Body: ast.Block{Stmts: []ast.Node{ast.Assign{Name: "k", Value: ast.Binary{Op: "-", L: nm("k"), R: il(1)}}, ast.Binary{Op: "*", L: nm("k"), R: il(3)}}}}}}
		default:
			body = ast.Block{Stmts: []ast.Node{ast.Assign{Name: "w", Value: ast.Binary{Op: "+", L: nm("n"), R: il(1)}},
				ast.For{Vars: []string{"i", "j"}, Iters: []ast.Node{icall("fromto", il(0), nm("n")), icall("elems", ast.StrLit{V: "abc"})}, Body: ast.ArrayLit{Elems: []ast.Node{nm("i"), nm("j"), nm("w")}}}}}
		}
		// the (possibly absent) value is bound by a wrapper: binding an absent value is the documented nil error,
		// the same in every context; a value made up from whatever lies on the stack is not
		defs = []ast.Node{ast.Assign{Name: "ploop", Value: ast.FuncLit{Params: []string{"n"}, Body: body}},
			ast.Assign{Name: "pf", Value: ast.FuncLit{Params: []string{"n"}, Body: ast.Block{Stmts: []ast.Node{ast.Assign{Name: "x", Value: icall("ploop", nm("n"))}, ast.ArrayLit{Elems: []ast.Node{nm("x"), nm("n")}}}}}}}
		// the zero-iteration calls are statements of their own (their value, nil, is compared with the reference);
		// the call that is placed everywhere runs the loop
		defs = append(defs, icall("ploop", il(0)), ast.Assign{Name: "pq", Value: ast.FuncLit{Params: []string{"n"}, Body: ast.Block{Stmts: []ast.Node{ast.Assign{Name: "t", Value: ast.Binary{Op: "+", L: nm("n"), R: il(1)}}, icall("ploop", nm("n"))}}}},
			icall("pq", il(0)), ast.For{Vars: []string{"zz"}, Iters: []ast.Node{icall("fromto", il(0), il(2))}, Body: icall("pq", il(0))})
		return defs, toa(icall("pf", il(int64(r.Range(1, 3))))), kind
	case 8: // function literals written in a for iterator expression escape the loop; another function's loop recycles the context
		kind = "iterator-expression-closure"
		spin := ast.Assign{Name: "pspin", Value: ast.FuncLit{Params: []string{"q"}, Body: ast.Block{Stmts: []ast.Node{
			ast.Assign{Name: "t", Value: ast.Binary{Op: "*", L: nm("q"), R: il(1000)}},
			ast.Assign{Name: "u", Value: ast.Binary{Op: "+", L: nm("t"), R: il(1)}},
			ast.For{Vars: []string{"i", "j"}, Iters: []ast.Node{icall("fromto", il(0), il(int64(r.Range(1, 3)))), icall("fromto", il(0), il(5))}, Body: ast.Assign{Name: "t", Value: ast.Binary{Op: "+", L: nm("t"), R: nm("i")}}},
			nm("t")}}}}
		var it ast.Node = icall("elems", ast.ArrayLit{Elems: []ast.Node{ast.FuncLit{Body: nm("v")}, ast.FuncLit{Body: ast.ArrayLit{Elems: []ast.Node{nm("v"), nm("k")}}}}})
		if r.Bool() {
			it = icall("ppass", ast.FuncLit{Params: []string{"x"}, Body: ast.Binary{Op: "+", L: nm("x"), R: nm("k")}})
		}
		callH := icall("h")
		if _, ok := it.(ast.Call); ok && it.(ast.Call).Fn == "ppass" {
			callH = icall("h", il(1))
		}
		body := ast.Block{Stmts: []ast.Node{
			ast.Assign{Name: "v", Value: ast.Binary{Op: "+", L: nm("n"), R: il(10)}},
			ast.Assign{Name: "k", Value: ast.Binary{Op: "*", L: nm("n"), R: il(3)}},
			ast.Assign{Name: "h", Value: ast.FuncLit{Params: nil, Body: il(0)}},
			ast.For{Vars: []string{"g"}, Iters: []ast.Node{it}, Body: ast.Assign{Name: "h", Value: nm("g")}},
			ast.Assign{Name: "a", Value: callH},
			ast.Assign{Name: "s", Value: icall("pspin", il(int64(r.Range(2, 9))))},
			ast.Assign{Name: "b", Value: callH},
			ast.ArrayLit{Elems: []ast.Node{nm("a"), nm("s"), nm("b")}},
		}}
		defs = []ast.Node{spin, ast.Assign{Name: "ppass", Value: ast.FuncLit{Params: []string{"f"}, Body: ast.Yield{X: nm("f")}}},
			ast.Assign{Name: "pf", Value: ast.FuncLit{Params: []string{"n"}, Body: body}}}
		return defs, toa(icall("pf", il(int64(r.Range(1, 9))))), kind
	case 9: // a closure routed through other functions while its defining call is live, then called after the captured variable changed
		kind = "routed-closure"
		body := ast.Block{Stmts: []ast.Node{
			ast.Assign{Name: "x", Value: nm("n")},
			ast.Assign{Name: "g", Value: ast.FuncLit{Body: ast.Binary{Op: "+", L: nm("x"), R: il(1)}}},
			ast.Assign{Name: "h", Value: icall("pid", nm("g"))},
			ast.Assign{Name: "w", Value: icall("pfirst", nm("g"))},
			ast.Assign{Name: "y", Value: icall("pdeep", il(int64([]int{3, 60, 200}[r.Intn(3)])))},
			ast.Assign{Name: "x", Value: ast.Binary{Op: "+", L: nm("x"), R: nm("y")}},
			ast.ArrayLit{Elems: []ast.Node{icall("g"), icall("h"), icall("w"), nm("x")}},
		}}
		defs = []ast.Node{deep, ast.Assign{Name: "pid", Value: ast.FuncLit{Params: []string{"f"}, Body: nm("f")}},
			ast.Assign{Name: "pone", Value: ast.FuncLit{Params: []string{"e"}, Body: ast.Block{Stmts: []ast.Node{ast.Yield{X: nm("e")}, ast.Yield{X: il(0)}}}}},
			ast.Assign{Name: "pfirst", Value: ast.FuncLit{Params: []string{"f"}, Body: ast.For{Vars: []string{"e"}, Iters: []ast.Node{icall("pone", nm("f"))}, Body: ast.Return{X: nm("e")}}}},
			ast.Assign{Name: "pf", Value: ast.FuncLit{Params: []string{"n"}, Body: body}}}
		return defs, toa(icall("pf", il(int64(r.Intn(50))))), kind
	case 0, 1: // random typed pure function
		kind = "typed"
		o := gen.DefaultOpts()
		o.Purity, o.Writes = true, false
		o.MaxDepth = r.Range(2, 4)
		o.MaxStmts = r.Range(1, 5)
		if r.Chance(1, 5) {
			o.Faults = 1
		}
		g := gen.New(r, o)
		for k := r.Range(0, 2); k > 0; k-- {
			defs = append(defs, g.TopStmt())
		}
		rets := []gen.Ty{gen.Int, gen.Str, gen.ArrOf(gen.Int), gen.Bool}
		n := r.Intn(3)
		ps := make([]gen.Ty, n)
		args := make([]ast.Node, n)
		for i := range ps {
			ps[i] = []gen.Ty{gen.Int, gen.Str, gen.ArrOf(gen.Int)}[r.Intn(3)]
		}
		t := gen.FunOf(rets[r.Intn(len(rets))], ps...)
		f := g.FuncLit(t, o.MaxDepth)
		g0 := gen.New(r, gen.Opts{MaxDepth: 1})
		for i := range args {
			args[i] = g0.Expr(ps[i], 1)
		}
		defs = append(defs, ast.Assign{Name: "pf", Value: f})
		return defs, toa(icall("pf", args...)), kind
	case 2: // closure created before and read after a deep call, captured variable updated in between
		kind = "closure-around-deep-call"
		d := int64([]int{5, 60, 130, 200, 700}[r.Intn(5)])
		body := ast.Block{Stmts: []ast.Node{
			ast.Assign{Name: "x", Value: nm("n")},
			ast.Assign{Name: "g", Value: ast.FuncLit{Body: ast.Binary{Op: "+", L: nm("x"), R: il(1)}}},
			ast.Assign{Name: "y", Value: icall("pdeep", il(d))},
			ast.Assign{Name: "x", Value: ast.Binary{Op: "+", L: nm("x"), R: nm("y")}},
			ast.ArrayLit{Elems: []ast.Node{icall("g"), nm("x")}},
		}}
		defs = []ast.Node{deep, ast.Assign{Name: "pf", Value: ast.FuncLit{Params: []string{"n"}, Body: body}}}
		return defs, toa(icall("pf", il(int64(r.Intn(50))))), kind
	case 3: // wide frame whose loop iterator reads the last local
		kind = "wide-frame-loop"
		w := []int{20, 100, 126, 127, 128, 129, 130, 200, 254, 256, 258, 300}[r.Intn(12)]
		var ss []ast.Node
		for i := 0; i < w; i++ {
			ss = append(ss, ast.Assign{Name: wideName(i), Value: ast.Binary{Op: "+", L: nm("n"), R: il(int64(i))}})
		}
		last := wideName(w - 1)
		ss = append(ss, ast.Assign{Name: "acc", Value: il(0)},
			ast.For{Vars: []string{"i"}, Iters: []ast.Node{icall("fromto", ast.Binary{Op: "-", L: nm(last), R: il(3)}, nm(last))}, Body: ast.Assign{Name: "acc", Value: ast.Binary{Op: "+", L: nm("acc"), R: ast.Binary{Op: "*", L: nm("i"), R: nm(wideName(w / 2))}}}},
			ast.ArrayLit{Elems: []ast.Node{nm("acc"), nm(wideName(0)), nm(last)}})
		defs = []ast.Node{ast.Assign{Name: "pf", Value: ast.FuncLit{Params: []string{"n"}, Body: ast.Block{Stmts: ss}}}}
		return defs, toa(icall("pf", il(int64(r.Intn(9))))), kind
	case 6: // closure created before and read after a call of a very wide function (its frame straddles allocation boundaries)
		kind = "closure-around-wide-call"
		w := []int{129, 150, 200, 257, 300}[r.Intn(5)]
		var ws []ast.Node
		for i := 0; i < w; i++ {
			ws = append(ws, ast.Assign{Name: wideName(i), Value: ast.Binary{Op: "+", L: nm("q"), R: il(int64(i))}})
		}
		ws = append(ws, ast.Binary{Op: "+", L: nm(wideName(0)), R: nm(wideName(w - 1))})
		body := ast.Block{Stmts: []ast.Node{
			ast.Assign{Name: "x", Value: nm("n")},
			ast.Assign{Name: "g", Value: ast.FuncLit{Body: ast.Binary{Op: "+", L: nm("x"), R: il(1)}}},
			ast.Assign{Name: "y", Value: icall("pwide", il(int64(r.Intn(9))))},
			ast.Assign{Name: "x", Value: ast.Binary{Op: "+", L: nm("x"), R: nm("y")}},
			ast.ArrayLit{Elems: []ast.Node{icall("g"), nm("x")}},
		}}
		defs = []ast.Node{ast.Assign{Name: "pwide", Value: ast.FuncLit{Params: []string{"q"}, Body: ast.Block{Stmts: ws}}}, ast.Assign{Name: "pf", Value: ast.FuncLit{Params: []string{"n"}, Body: body}}}
		return defs, toa(icall("pf", il(int64(r.Intn(50))))), kind
	case 5: // three zipped generators, one of them a closure generator
		kind = "three-way-zip"
		body := ast.Block{Stmts: []ast.Node{
			ast.Assign{Name: "k", Value: ast.Binary{Op: "+", L: nm("n"), R: il(10)}},
			ast.Assign{Name: "gen", Value: ast.FuncLit{Body: ast.Block{Stmts: []ast.Node{ast.Yield{X: nm("k")}, ast.Yield{X: ast.Binary{Op: "+", L: nm("k"), R: il(1)}}, ast.Yield{X: ast.Binary{Op: "+", L: nm("k"), R: il(2)}}}}}},
			ast.Assign{Name: "acc", Value: ast.ArrayLit{}},
			ast.For{Vars: []string{"a", "b", "c"}, Iters: []ast.Node{icall("fromto", il(0), il(3)), icall("gen"), icall("elems", ast.StrLit{V: "xyz"})},
				Body: ast.Assign{Name: "acc", Value: ast.Binary{Op: "+", L: nm("acc"), R: ast.ArrayLit{Elems: []ast.Node{ast.ArrayLit{Elems: []ast.Node{nm("a"), nm("b"), nm("c")}}}}}}},
			nm("acc"),
		}}
		defs = []ast.Node{ast.Assign{Name: "pf", Value: ast.FuncLit{Params: []string{"n"}, Body: body}}}
		return defs, toa(icall("pf", il(int64(r.Range(0, 9))))), kind
	case 4: // a closure generator reading a captured variable after each resume, while the body calls closure-carrying functions
		kind = "closure-generator"
		k := int64(r.Range(1, 5))
		body := ast.Block{Stmts: []ast.Node{
			ast.Assign{Name: "x", Value: ast.Binary{Op: "*", L: nm("n"), R: il(100)}},
			ast.Assign{Name: "gen", Value: ast.FuncLit{Body: ast.Block{Stmts: []ast.Node{
				ast.Yield{X: ast.Binary{Op: "+", L: nm("x"), R: il(1)}}, ast.Yield{X: ast.Binary{Op: "+", L: nm("x"), R: il(2)}}, ast.Yield{X: ast.Binary{Op: "+", L: nm("x"), R: il(3)}}}}}},
			ast.Assign{Name: "add", Value: ast.FuncLit{Params: []string{"k"}, Body: ast.FuncLit{Params: []string{"z"}, Body: ast.Binary{Op: "+", L: nm("z"), R: nm("k")}}}},
			ast.Assign{Name: "acc", Value: ast.ArrayLit{}},
			ast.For{Vars: []string{"v"}, Iters: []ast.Node{icall("gen")}, Body: ast.Block{Stmts: []ast.Node{
				ast.Assign{Name: "h", Value: icall("add", nm("v"))},
				// the captured variable changes and the main stack may be reallocated between two resumptions of the generator
				ast.Assign{Name: "x", Value: ast.Binary{Op: "+", L: nm("x"), R: icall("pdeep", il(int64([]int{0, 3, 70, 160, 400}[r.Intn(5)])))}},
				ast.Assign{Name: "acc", Value: ast.Binary{Op: "+", L: nm("acc"), R: ast.ArrayLit{Elems: []ast.Node{icall("h", il(k))}}}}}}},
			nm("acc"),
		}}
		defs = []ast.Node{deep, ast.Assign{Name: "pf", Value: ast.FuncLit{Params: []string{"n"}, Body: body}}}
		return defs, toa(icall("pf", il(int64(r.Range(1, 9))))), kind
	default: // loops over generators and returned closures inside f
		kind = "loops-and-returned-closures"
		body := ast.Block{Stmts: []ast.Node{
			ast.Assign{Name: "mk", Value: ast.FuncLit{Params: []string{"k"}, Body: ast.FuncLit{Params: []string{"z"}, Body: ast.Binary{Op: "+", L: ast.Binary{Op: "*", L: nm("k"), R: nm("z")}, R: il(1)}}}},
			ast.Assign{Name: "h", Value: icall("mk", nm("n"))},
			ast.Assign{Name: "acc", Value: ast.ArrayLit{}},
			ast.For{Vars: []string{"i", "c"}, Iters: []ast.Node{icall("fromto", il(0), il(int64(r.Range(1, 6)))), icall("elems", ast.StrLit{V: "abcdef"})},
				Body: ast.Assign{Name: "acc", Value: ast.Binary{Op: "+", L: nm("acc"), R: ast.ArrayLit{Elems: []ast.Node{icall("h", nm("i")), nm("c")}}}}},
			nm("acc"),
		}}
		defs = []ast.Node{ast.Assign{Name: "pf", Value: ast.FuncLit{Params: []string{"n"}, Body: body}}}
		return defs, toa(icall("pf", il(int64(r.Range(1, 9))))), kind
	}
}

func wideName(i int) string {
	s := "w"
	for k := i + 1; k > 0; k /= 26 {
		s += string(rune('a' + k%26))
	}
	return s
}

// c03Session: definitions, then the call in many contexts interleaved with noise.
// Every placement assigns its rendering to a fresh global pr<i>.
func c03Session(r *core.Rng, defs []ast.Node, call ast.Node) (stmts []ast.Node, probes []int, names []string) {
	stmts = append(stmts, defs...)
	stmts = append(stmts,
		ast.Assign{Name: "zdeep", Value: ast.FuncLit{Params: []string{"n"}, Body: ast.If{Cond: ast.Binary{Op: "<=", L: nm("n"), R: il(0)}, Then: il(0), Else: ast.Binary{Op: "+", L: il(1), R: icall("zdeep", ast.Binary{Op: "-", L: nm("n"), R: il(1)})}}}},
		ast.Assign{Name: "zid", Value: ast.FuncLit{Params: []string{"x"}, Body: nm("x")}})
	type pl struct {
		name  string
		build func(dst string) []ast.Node
	}
	atDepth := func(d int64) func(string) []ast.Node {
		return func(dst string) []ast.Node {
			return []ast.Node{
				ast.Assign{Name: "zat", Value: ast.FuncLit{Params: []string{"d"}, Body: ast.If{Cond: ast.Binary{Op: "<=", L: nm("d"), R: il(0)}, Then: icall("zid", call), Else: icall("zat", ast.Binary{Op: "-", L: nm("d"), R: il(1)})}}},
				ast.Assign{Name: dst, Value: icall("zat", il(d))}}
		}
	}
	pls := []pl{
		{"plain", func(dst string) []ast.Node { return []ast.Node{ast.Assign{Name: dst, Value: call}} }},
		{"depth-1", atDepth(1)}, {"depth-2", atDepth(2)}, {"depth-3", atDepth(3)}, {"depth-4", atDepth(4)}, {"depth-10", atDepth(10)}, {"depth-130", atDepth(130)}, {"depth-1000", atDepth(1000)},
		{"in-while-body", func(dst string) []ast.Node {
			return []ast.Node{ast.Block{Stmts: []ast.Node{ast.Assign{Name: "zi", Value: il(0)}, ast.While{Cond: ast.Binary{Op: "<", L: nm("zi"), R: il(3)}, Body: ast.Block{Stmts: []ast.Node{ast.Assign{Name: dst, Value: call}, ast.Assign{Name: "zi", Value: ast.Binary{Op: "+", L: nm("zi"), R: il(1)}}}}}}}}
		}},
		{"in-for-body", func(dst string) []ast.Node {
			return []ast.Node{ast.For{Vars: []string{"zi"}, Iters: []ast.Node{icall("fromto", il(0), il(3))}, Body: ast.Assign{Name: dst, Value: call}}}
		}},
		{"in-generator", func(dst string) []ast.Node {
			return []ast.Node{ast.Assign{Name: "zg", Value: ast.FuncLit{Body: ast.Block{Stmts: []ast.Node{ast.Yield{X: il(0)}, ast.Yield{X: call}}}}},
				ast.For{Vars: []string{"zv"}, Iters: []ast.Node{icall("zg")}, Body: ast.If{Cond: ast.Binary{Op: "!=", L: nm("zv"), R: il(0)}, Then: ast.Assign{Name: dst, Value: nm("zv")}}}}
		}},
		{"twice-in-array", nil},
		{"after-failure", func(dst string) []ast.Node {
			return []ast.Node{ast.Binary{Op: "+", L: icall("zdeep", il(20)), R: ast.Binary{Op: "/", L: il(1), R: il(0)}}, ast.Assign{Name: dst, Value: call}}
		}},
		{"after-failure-under-closure-frames", func(dst string) []ast.Node {
			// the failing call chain defined a closure on every level (each frame had a frame header) and is dropped as a whole
			return []ast.Node{
				ast.Assign{Name: "zfc", Value: ast.FuncLit{Params: []string{"d", "e", "f"}, Body: ast.Block{Stmts: []ast.Node{
					ast.Assign{Name: "zg", Value: ast.FuncLit{Body: ast.Binary{Op: "+", L: nm("d"), R: nm("f")}}},
					ast.If{Cond: ast.Binary{Op: "<=", L: nm("d"), R: il(0)}, Then: ast.Binary{Op: "/", L: icall("zg"), R: il(0)}, Else: icall("zfc", ast.Binary{Op: "-", L: nm("d"), R: il(1)}, il(77), il(88))}}}}},
				icall("zfc", il(int64(r.Range(1, 6))), il(5), il(6)), ast.Assign{Name: dst, Value: call}}
		}},
		{"after-abandoned-closure-generator", func(dst string) []ast.Node {
			// a generator that defined closures d calls deep is left early; the next loop recycles its context; all in one statement
			return []ast.Node{
				ast.Assign{Name: "zcg", Value: ast.FuncLit{Params: []string{"d", "e"}, Body: ast.Block{Stmts: []ast.Node{
					ast.Assign{Name: "zg", Value: ast.FuncLit{Body: ast.Binary{Op: "*", L: nm("d"), R: nm("e")}}},
					ast.If{Cond: ast.Binary{Op: "<=", L: nm("d"), R: il(0)}, Then: ast.Block{Stmts: []ast.Node{ast.Yield{X: nm("zg")}, ast.Yield{X: nm("zg")}}}, Else: icall("zcg", ast.Binary{Op: "-", L: nm("d"), R: il(1)}, il(99))}}}}},
				ast.Assign{Name: "zleave", Value: ast.FuncLit{Params: []string{"k"}, Body: ast.For{Vars: []string{"zh"}, Iters: []ast.Node{icall("zcg", nm("k"), il(3))}, Body: ast.Return{X: icall("zh")}}}},
				ast.Block{Stmts: []ast.Node{icall("zleave", il(int64(r.Range(0, 4)))),
					ast.For{Vars: []string{"zq"}, Iters: []ast.Node{icall("fromto", il(0), il(2))}, Body: ast.Assign{Name: dst, Value: call}},
					nm(dst)}}}
		}},
		{"after-a-narrow-function's-loop-in-the-same-statement", func(dst string) []ast.Node {
			// the loop of a function with a small frame ran (and freed its context) earlier in the same statement
			return []ast.Node{
				ast.Assign{Name: "znarrow", Value: ast.FuncLit{Params: []string{"k"}, Body: ast.Block{Stmts: []ast.Node{ast.Assign{Name: "s", Value: il(0)}, ast.For{Vars: []string{"zi"}, Iters: []ast.Node{icall("fromto", il(0), nm("k"))}, Body: ast.Assign{Name: "s", Value: ast.Binary{Op: "+", L: nm("s"), R: nm("zi")}}}, nm("s")}}}},
				ast.Assign{Name: dst, Value: ast.Index{X: ast.ArrayLit{Elems: []ast.Node{icall("znarrow", il(int64(r.Range(1, 4)))), call}}, I: il(1)}}}
		}},
		{"after-stack-growth", func(dst string) []ast.Node {
			return []ast.Node{icall("zdeep", il(int64([]int{140, 600, 4000}[r.Intn(3)]))), ast.Assign{Name: dst, Value: call}}
		}},
		{"after-recycled-contexts", func(dst string) []ast.Node {
			return []ast.Node{ast.Block{Stmts: []ast.Node{
				ast.For{Vars: []string{"zq"}, Iters: []ast.Node{icall("fromto", il(0), il(2))}, Body: nm("zq")},
				ast.For{Vars: []string{"zq", "zr"}, Iters: []ast.Node{icall("fromto", il(0), il(2)), icall("elems", ast.StrLit{V: "xy"})}, Body: nm("zq")},
				ast.Assign{Name: dst, Value: call}}}}
		}},
		{"depth-random-a", atDepth(int64(r.Range(100, 420)))}, {"depth-random-b", atDepth(int64(r.Range(100, 420)))},
		{"after-early-return-from-zip", func(dst string) []ast.Node {
			return []ast.Node{
				ast.Assign{Name: "zfirst", Value: ast.FuncLit{Params: []string{"k"}, Body: ast.For{Vars: []string{"zi", "zj"}, Iters: []ast.Node{icall("fromto", il(0), il(5)), icall("fromto", il(10), il(15))},
					Body: ast.If{Cond: ast.Binary{Op: "==", L: nm("zi"), R: nm("k")}, Then: ast.Return{X: nm("zj")}}}}},
				ast.Assign{Name: "zempty", Value: ast.FuncLit{Body: ast.For{Vars: []string{"zi", "zj"}, Iters: []ast.Node{icall("fromto", il(0), il(0)), icall("fromto", il(0), il(3))}, Body: nm("zi")}}},
				ast.Block{Stmts: []ast.Node{icall("zfirst", il(1)), icall("zempty"), ast.Assign{Name: dst, Value: call}}}}
		}},
		{"as-argument", func(dst string) []ast.Node {
			return []ast.Node{ast.Assign{Name: dst, Value: icall("zid", icall("zid", call))}}
		}},
	}
	order := make([]int, len(pls))
	for i := range order {
		order[i] = i
	}
	for i := len(order) - 1; i > 0; i-- {
		j := r.Intn(i + 1)
		order[i], order[j] = order[j], order[i]
	}
	// the plain call always comes first: it is the baseline
	for i, k := range order {
		if k == 0 {
			order[0], order[i] = order[i], order[0]
		}
	}
	for n, k := range order {
		dst := fmt.Sprintf("pr%c", 'a'+n)
		if pls[k].name == "twice-in-array" {
			stmts = append(stmts, ast.Assign{Name: "zpair", Value: ast.ArrayLit{Elems: []ast.Node{call, call}}})
			stmts = append(stmts, ast.Assign{Name: dst, Value: ast.Index{X: nm("zpair"), I: il(1)}})
			probes = append(probes, len(stmts)-2, len(stmts)-1)
			names = append(names, "twice-in-array[0..1]", "twice-in-array[1]")
			continue
		}
		built := pls[k].build(dst)
		stmts = append(stmts, built...)
		stmts = append(stmts, nm(dst)) // read the rendering back
		probes = append(probes, len(stmts)-1)
		names = append(names, pls[k].name)
		if r.Chance(1, 3) { // noise between placements
			stmts = append(stmts, ast.Assign{Name: "znoise", Value: ast.Binary{Op: "+", L: icall("zdeep", il(int64(r.Intn(40)))), R: il(int64(n))}})
		}
	}
	return
}

func c03Case(ctx *core.Ctx, idx int) core.Result {
	r := core.CaseRng(ctx.Seed, "C03/placements", idx)
	var res core.Result
	defs, call, kind := pureFunction(r)
	stmts, probes, names := c03Session(r, defs, call)
	stress := stressModes[idx%len(stressModes)]
	res.Hash = core.Mix(sessionHash(stmts) ^ core.HashString(stress))
	in := map[string]any{"function_kind": kind, "definitions": sessionText(defs), "call": ast.Print(call, nil), "stress": stress}
	for _, st := range stmts {
		if d := ast.Denotable(st); d != "" {
			res.Verdict, res.Reason = core.Inconclusive, "undenotable: "+d
			return res
		}
	}
	// reference
	ref := rs.New()
	ref.Budget = 3000000
	want := make([]rs.Result, len(stmts))
	for i, st := range stmts {
		want[i] = ref.Exec(st)
		if want[i].Ambiguous != "" || want[i].Budget || want[i].TooBig {
			res.Verdict, res.Reason = core.Dropped, "outside the agreed region: "+want[i].Ambiguous
			return res
		}
	}
	// real
	setTight(stress == "tight")
	defer setTight(false)
	ses := calcrun.NewSession()
	ses.StepLimit = 50000000
	ses.ForkLimit = 500000
	if stress == "pregrown" {
		ses.Exec("vpre = (n) -> if n <= 0 0 else 1 + vpre(n-1)", false)
		ses.Exec("vpre(3000)", false)
	}
	got := make([]calcrun.StmtObs, len(stmts))
	for i, st := range stmts {
		o := ses.Exec(ast.Print(st, nil), true)
		if len(o) != 1 || o[0].Panic != nil || o[0].Parse != nil || o[0].StepLimit || o[0].Hang != "" {
			d := "aborted"
			if len(o) == 1 && o[0].Panic != nil {
				d = "panic: " + o[0].Panic.Msg + " at " + o[0].Panic.Site
			}
			res.Verdict = core.Violated
			res.Viol = &core.Violation{Monitor: "no-abort", Detail: fmt.Sprintf("statement %d %q: %s", i, trunc(ast.Print(st, nil), 200), d), Input: in}
			return res
		}
		got[i] = o[0]
		res.Add("stack_growths", o[0].Grow)
		res.Add("context_clone_reuse", o[0].CloneReuse)
		res.SetMax("max_stack_len", o[0].MaxStackLen)
	}
	render := func(i int) string {
		if i > 0 && got[i-1].Err != "" {
			return "error:" + got[i-1].Err
		}
		if got[i].Err != "" {
			return "error:" + got[i].Err
		}
		return val.Debug(got[i].Value)
	}
	renderRS := func(i int) string {
		if i > 0 && want[i-1].Err != "" {
			return "error:" + want[i-1].Err
		}
		if want[i].Err != "" {
			return "error:" + want[i].Err
		}
		return val.Debug(want[i].Value)
	}
	// every statement of the session (definitions, noise, direct calls) against the reference
	for i := range stmts {
		g, w := "error:"+got[i].Err, "error:"+want[i].Err
		if got[i].Err == "" {
			g = val.Debug(got[i].Value)
		}
		if want[i].Err == "" {
			w = val.Debug(want[i].Value)
		}
		if g != w {
			in["session"] = sessionText(stmts)
			res.Verdict = core.Violated
			res.Viol = &core.Violation{Monitor: "differential", Detail: fmt.Sprintf("statement %d %q: %s, reference %s", i, trunc(ast.Print(stmts[i], nil), 200), trunc(g, 200), trunc(w, 200)), Input: in}
			return res
		}
	}
	base := ""
	for k, p := range probes {
		g, w := render(p), renderRS(p)
		res.Add("placements_compared", 1)
		res.Tag("placement:" + names[k])
		if names[k] == "twice-in-array[0..1]" {
			// both elements must be equal to each other
			if got[p].Err == "" && got[p].Value.K == val.Arr && len(got[p].Value.A) == 2 && !val.Same(got[p].Value.A[0], got[p].Value.A[1]) {
				res.Verdict = core.Violated
				res.Viol = &core.Violation{Monitor: "purity", Detail: fmt.Sprintf("[f(a), f(a)] = %s: two calls with equal arguments in one array literal differ", g), Input: in}
				return res
			}
			if g != w {
				res.Verdict = core.Violated
				res.Viol = &core.Violation{Monitor: "differential", Detail: fmt.Sprintf("[f(a), f(a)] = %s, reference %s", trunc(g, 200), trunc(w, 200)), Input: in}
				return res
			}
			continue
		}
		if base == "" {
			base = g
		}
		if g != base {
			in["session"] = sessionText(stmts)
			res.Verdict = core.Violated
			res.Viol = &core.Violation{Monitor: "purity", Detail: fmt.Sprintf("the call evaluates to %s in placement %q but to %s in the first (plain) placement of the same session", trunc(g, 200), names[k], trunc(base, 200)), Input: in}
			return res
		}
		if g != w {
			in["session"] = sessionText(stmts)
			res.Verdict = core.Violated
			res.Viol = &core.Violation{Monitor: "differential", Detail: fmt.Sprintf("placement %q: %s, reference %s", names[k], trunc(g, 200), trunc(w, 200)), Input: in}
			return res
		}
	}
	res.Tag("function:" + kind)
	res.Verdict = core.Held
	res.Nontrivial = len(probes) >= 8
	in["result"] = trunc(base, 200)
	res.Sample = in
	return res
}

// c03Uninit: a function that reads a local it did not assign on that path
// returns nil whatever ran before and wherever its frame lands (the suite
// pins "uninitialised local reads as nil"); earlier calls dirty the stack
// slots the frame will occupy, the call depth sweeps across allocation
// boundaries.
func c03Uninit(ctx *core.Ctx, idx int) core.Result {
	r := core.CaseRng(ctx.Seed, "C03/uninit", idx)
	nloc := r.Range(1, 12)
	var dirtyBody []ast.Node
	var sum ast.Node = il(0)
	for i := 0; i < nloc; i++ {
		nmv := wideName(i)
		dirtyBody = append(dirtyBody, ast.Assign{Name: nmv, Value: ast.Binary{Op: "+", L: nm("n"), R: il(int64(i + 1))}})
		sum = ast.Binary{Op: "+", L: sum, R: nm(nmv)}
	}
	dirtyBody = append(dirtyBody, sum)
	var probeBody []ast.Node
	for i := 0; i < nloc; i++ {
		probeBody = append(probeBody, ast.If{Cond: ast.Binary{Op: ">", L: nm("n"), R: il(100)}, Then: ast.Assign{Name: wideName(i), Value: il(1)}})
	}
	probeBody = append(probeBody, nm(wideName(r.Intn(nloc))))
	stmts := []ast.Node{
		ast.Assign{Name: "dirty", Value: ast.FuncLit{Params: []string{"n"}, Body: ast.Block{Stmts: dirtyBody}}},
		ast.Assign{Name: "probe", Value: ast.FuncLit{Params: []string{"n"}, Body: ast.Block{Stmts: probeBody}}},
		ast.Assign{Name: "at", Value: ast.FuncLit{Params: []string{"d", "k"}, Body: ast.If{Cond: ast.Binary{Op: "<=", L: nm("d"), R: il(0)},
			Then: ast.If{Cond: ast.Binary{Op: "==", L: nm("k"), R: il(1)}, Then: icall("dirty", il(7)), Else: icall("probe", il(0))},
			Else: icall("at", ast.Binary{Op: "-", L: nm("d"), R: il(1)}, nm("k"))}}},
	}
	// sweep a window of call depths around a random base: the stack is 3 slots per `at` frame
	base := r.Range(0, 400)
	for d := base; d < base+45; d++ {
		stmts = append(stmts, icall("at", il(int64(d)), il(1)), icall("at", il(int64(d+1)), il(0)), icall("at", il(int64(d)), il(0)))
	}
	opts := diffOpts{DoOut: true, Stress: []string{"plain", "tight"}[idx%2], Residue: true}
	d := runDiff(stmts, opts)
	res := diffCase("C03", stmts[:3], opts, d, map[string]any{"family": "uninit", "depth_window": []int{base, base + 45}, "locals": nloc})
	res.Hash = core.Mix(sessionHash(stmts) ^ uint64(idx%2))
	res.Add("placements_compared", d.Executed)
	res.Tag("function:uninitialised-local-probe")
	res.Nontrivial = d.Verdict == core.Held
	return res
}

func init() {
	register(&core.Property{
		ID:          "C03",
		Rule:        "one session per case: a side-effect-free function (random typed pure function with closures/loops/generators; closure created before and read after a deep call while its captured variable is updated; 20..300-local function whose loop iterator reads its last local; loops over zipped generators calling returned closures) and an argument tuple; the call is evaluated in 13 dynamic contexts in random order — first statement, argument at recursion depth 1/10/130/1000, while body, for body, inside a generator, twice in one array literal, after a failed statement, after the stack grew by 140..4000 frames, after contexts were created and recycled in the same statement, nested identity calls — interleaved with noise statements; all renderings must be equal to the first and to the reference; plain/tight/pregrown allocation. non-trivial = >= 8 placements compared; distinct by session and stress mode.",
		Assumptions: []string{"functions whose plain evaluation the reference finds ambiguous are dropped", "global bindings are unchanged between placements by construction (noise uses disjoint names)"},
		Families: []core.Family{
			{Name: "placements", Count: countFn(1500, 60000), Run: c03Case},
			{Name: "uninit", Count: countFn(300, 12000), Run: c03Uninit},
			{Name: "depths", Count: countFn(48, 1200), Run: func(ctx *core.Ctx, idx int) core.Result { return depthCase("C03", ctx, idx) }},
		},
		Floors: []core.Floor{{Key: "placements_compared", Quick: 12000, Thor: 500000}, {Key: "tag:placement:", Quick: 22, Thor: 22}, {Key: "tag:function:", Quick: 13, Thor: 13}, {Key: "stack_growths", Quick: 3000, Thor: 80000}, {Key: "context_clone_reuse", Quick: 500, Thor: 15000}},
	})
	core.CaseSeconds["C03/placements"] = 1
}
