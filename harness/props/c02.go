package props

import (
	"fmt"
	"strconv"
	"strings"

	"verif/ast"
	"verif/calcrun"
	"verif/core"
	"verif/gen"
)

// C02 — for loops consume exactly what their iterators yield, lazily and in
// order. Two independent oracles:
//  (1) trace-law checker over instrumented generator pipelines (needs no
//      reference interpreter): suspended stages form a stack, a loop body runs
//      right after the yield that feeds it and before that generator is
//      resumed, consumer values equal a plain list model of the pipeline,
//      nothing of an abandoned generator ever runs again;
//  (2) differential against the reference semantics on the same pipelines
//      (untraced) and on generator-heavy typed sessions, in four stress modes.

var libCache = map[bool][]ast.Node{}

func pipeLibrary(traced bool) []ast.Node {
	if l, ok := libCache[traced]; ok {
		return l
	}
	var out []ast.Node
	for _, src := range gen.PipeLibrary(traced) {
		nodes, perr, pan, hang, _, _ := calcrun.Parse(src)
		if perr != nil || pan != nil || hang != "" || len(nodes) != 1 {
			panic(fmt.Sprintf("pipeline library statement does not parse: %q %v", src, perr))
		}
		out = append(out, calcrun.FromNode(nodes[0]))
	}
	libCache[traced] = out
	return out
}

func wr(parts ...ast.Node) ast.Node {
	var e ast.Node = parts[0]
	for _, p := range parts[1:] {
		e = ast.Binary{Op: "+", L: e, R: p}
	}
	return ast.Call{Fn: "write", Args: []ast.Node{e}}
}
func sl(s string) ast.Node    { return ast.StrLit{V: s} }
func toa(e ast.Node) ast.Node { return ast.Call{Fn: "toa", Args: []ast.Node{e}} }

// consumer builds the traced consuming statement(s) for pipelines ps (1 = plain loop, 2 = zip).
func c02Consumer(r *core.Rng, ps []*gen.Pipe, traced bool, pre []*gen.Pipe) (stmts []ast.Node, retAt int, shape string) {
	vars := []string{"v"}
	its := []ast.Node{ps[0].Expr()}
	var bval ast.Node = nm("v")
	if len(ps) == 2 {
		vars = []string{"v", "u"}
		its = append(its, ps[1].Expr())
		bval = ast.ArrayLit{Elems: []ast.Node{nm("v"), nm("u")}}
	}
	retAt = -1
	var body []ast.Node
	if traced {
		body = append(body, wr(sl("B:"), toa(bval), sl("\n")))
	}
	// work that uses the temp register, calls and (sometimes) an inner loop
	switch r.Intn(6) {
	case 4, 5: // a call of a function that runs loops of its own (same loop ids, one call deeper)
		body = append(body, ast.Assign{Name: "acc", Value: ast.Binary{Op: "+", L: nm("acc"), R: icall([]string{"gsumto", "gzipto"}[r.Intn(2)], nm("v"))}})
	case 0:
		body = append(body, ast.Assign{Name: "acc", Value: ast.Binary{Op: "+", L: nm("acc"), R: ast.Binary{Op: "*", L: ast.Binary{Op: "+", L: nm("v"), R: ast.IntLit{V: 1}}, R: ast.IntLit{V: 3}}}})
	case 1:
		body = append(body, ast.Assign{Name: "acc", Value: ast.Binary{Op: "+", L: nm("acc"), R: ast.Unary{Op: "#", X: toa(ast.Binary{Op: "*", L: nm("v"), R: nm("v")})}}})
	case 2:
		body = append(body, ast.For{Vars: []string{"q"}, Iters: []ast.Node{ast.Call{Fn: "fromto", Args: []ast.Node{ast.IntLit{V: 0}, ast.IntLit{V: int64(r.Intn(3))}}}},
			Body: ast.Assign{Name: "acc", Value: ast.Binary{Op: "+", L: nm("acc"), R: nm("q")}}})
	default:
		body = append(body, ast.Assign{Name: "acc", Value: ast.Binary{Op: "-", L: ast.Binary{Op: "*", L: nm("acc"), R: ast.IntLit{V: 2}}, R: nm("v")}})
	}
	if r.Chance(1, 3) {
		retAt = r.Intn(4)
		ret := []ast.Node{ast.Return{X: ast.Binary{Op: "+", L: nm("acc"), R: ast.IntLit{V: 1000}}}}
		if traced {
			ret = append([]ast.Node{wr(sl("RET\n"))}, ret...)
		}
		var rb ast.Node = ret[0]
		if len(ret) > 1 {
			rb = ast.Block{Stmts: ret}
		}
		body = append(body, ast.If{Cond: ast.Binary{Op: "==", L: nm("cnt"), R: ast.IntLit{V: int64(retAt)}}, Then: rb})
	}
	body = append(body, ast.Assign{Name: "cnt", Value: ast.Binary{Op: "+", L: nm("cnt"), R: ast.IntLit{V: 1}}})
	if traced {
		body = append(body, wr(sl("E\n")))
	} else {
		body = append(body, nm("acc"))
	}
	var loop ast.Node = ast.For{Vars: vars, Iters: its, Body: ast.Block{Stmts: body}}
	if !traced && len(ps) == 2 && r.Bool() {
		// directly nested consumer loops instead of a zip (cross product)
		loop = ast.For{Vars: vars[:1], Iters: its[:1], Body: ast.For{Vars: vars[1:], Iters: its[1:], Body: ast.Block{Stmts: body}}}
	}
	core_ := []ast.Node{ast.Assign{Name: "acc", Value: ast.IntLit{V: 0}}, ast.Assign{Name: "cnt", Value: ast.IntLit{V: 0}}, loop}
	if !(retAt >= 0) {
		core_ = append(core_, nm("acc"))
	} else {
		core_ = append(core_, ast.Binary{Op: "-", L: ast.IntLit{V: 0}, R: nm("acc")})
	}
	switch r.Intn(4) {
	case 0: // top-level block
		shape = "top-level"
		return []ast.Node{ast.Block{Stmts: core_}}, retAt, shape
	case 1: // inside a function
		shape = "in-function"
		return []ast.Node{ast.Assign{Name: "vc", Value: ast.FuncLit{Body: ast.Block{Stmts: core_}}}, ast.Call{Fn: "vc"}}, retAt, shape
	case 2: // inside a recursive function at depth d
		shape = "in-recursion"
		d := int64(r.Range(1, 30))
		rec := ast.FuncLit{Params: []string{"d"}, Body: ast.If{Cond: ast.Binary{Op: ">", L: nm("d"), R: ast.IntLit{V: 0}}, Then: ast.Call{Fn: "vc", Args: []ast.Node{ast.Binary{Op: "-", L: nm("d"), R: ast.IntLit{V: 1}}}}, Else: ast.Block{Stmts: core_}}}
		return []ast.Node{ast.Assign{Name: "vc", Value: rec}, ast.Call{Fn: "vc", Args: []ast.Node{ast.IntLit{V: d}}}}, retAt, shape
	default: // after other loops ran in the same statement (recycled contexts, some of them created under other generators)
		shape = "after-loops"
		pl := []ast.Node{}
		for k := r.Range(0, 2); k > 0; k-- {
			pl = append(pl, ast.For{Vars: []string{"q"}, Iters: []ast.Node{ast.Call{Fn: "fromto", Args: []ast.Node{ast.IntLit{V: 0}, ast.IntLit{V: int64(r.Range(1, 3))}}}}, Body: nm("q")})
		}
		for _, pp := range pre {
			pl = append(pl, ast.For{Vars: []string{"q"}, Iters: []ast.Node{pp.Expr()}, Body: ast.Binary{Op: "+", L: nm("q"), R: ast.IntLit{V: 1}}})
		}
		if len(pl) == 0 {
			pl = append(pl, ast.For{Vars: []string{"q"}, Iters: []ast.Node{ast.Call{Fn: "fromto", Args: []ast.Node{ast.IntLit{V: 0}, ast.IntLit{V: 2}}}}, Body: nm("q")})
		}
		if r.Bool() {
			return []ast.Node{ast.Block{Stmts: append(pl, core_...)}}, retAt, shape + "-top-level"
		}
		return []ast.Node{ast.Assign{Name: "vc", Value: ast.FuncLit{Body: ast.Block{Stmts: append(pl, core_...)}}}, ast.Call{Fn: "vc"}}, retAt, shape
	}
}

type traceEv struct {
	Kind  string // Y R B E RET
	Stage int
	Val   string
}

func parseTrace(out string) ([]traceEv, string) {
	var evs []traceEv
	for _, l := range strings.Split(strings.TrimSuffix(out, "\n"), "\n") {
		if l == "" {
			continue
		}
		switch {
		case l == "E":
			evs = append(evs, traceEv{Kind: "E"})
		case l == "RET":
			evs = append(evs, traceEv{Kind: "RET"})
		case strings.HasPrefix(l, "B:"):
			evs = append(evs, traceEv{Kind: "B", Val: l[2:]})
		case strings.HasPrefix(l, "Y"):
			i := strings.IndexByte(l, ':')
			if i < 0 {
				return nil, "malformed trace line " + l
			}
			s, err := strconv.Atoi(l[1:i])
			if err != nil {
				return nil, "malformed trace line " + l
			}
			evs = append(evs, traceEv{Kind: "Y", Stage: s, Val: l[i+1:]})
		case strings.HasPrefix(l, "R"):
			s, err := strconv.Atoi(l[1:])
			if err != nil {
				return nil, "malformed trace line " + l
			}
			evs = append(evs, traceEv{Kind: "R", Stage: s})
		default:
			return nil, "unexpected output line " + l
		}
	}
	return evs, ""
}

func stagesOf(p *gen.Pipe, m map[int]int, which int) {
	m[p.ID] = which
	if p.A != nil {
		stagesOf(p.A, m, which)
	}
	if p.B != nil {
		stagesOf(p.B, m, which)
	}
}

// checkTrace evaluates the trace laws. want is the expected consumer value
// sequence (already cut at the early return, if any).
func checkTrace(evs []traceEv, ps []*gen.Pipe, want []string, retAt int, pre []*gen.Pipe) string {
	owner := map[int]int{}
	for i, p := range ps {
		stagesOf(p, owner, i)
	}
	for i, p := range pre {
		stagesOf(p, owner, len(ps)+i)
	}
	stacks := make([][]traceEv, len(ps)+len(pre))
	var bs []string
	returned := false
	inBody := false
	for i, e := range evs {
		if returned && (e.Kind == "Y" || e.Kind == "R" || e.Kind == "B" || e.Kind == "E") {
			return fmt.Sprintf("event %d (%s%d) after the loop body returned: an abandoned generator ran", i, e.Kind, e.Stage)
		}
		switch e.Kind {
		case "Y":
			if inBody {
				return fmt.Sprintf("event %d: generator stage %d ran while the loop body was executing", i, e.Stage)
			}
			w, ok := owner[e.Stage]
			if !ok {
				return fmt.Sprintf("event %d: unknown stage %d", i, e.Stage)
			}
			stacks[w] = append(stacks[w], e)
		case "R":
			if inBody {
				return fmt.Sprintf("event %d: generator stage %d resumed before the loop body finished", i, e.Stage)
			}
			w, ok := owner[e.Stage]
			if !ok {
				return fmt.Sprintf("event %d: unknown stage %d", i, e.Stage)
			}
			st := stacks[w]
			j := len(st) - 1
			for j >= 0 && st[j].Stage != e.Stage {
				j--
			}
			if j < 0 {
				return fmt.Sprintf("event %d: stage %d resumed although it was not suspended in a yield", i, e.Stage)
			}
			stacks[w] = st[:j]
		case "B":
			// every pipeline's root must be suspended on top of its stack with the bound value
			var vals []string
			for k, p := range ps {
				st := stacks[k]
				if len(st) == 0 || st[len(st)-1].Stage != p.ID {
					return fmt.Sprintf("event %d: loop body ran while the root stage of iterator %d was not suspended in a yield", i, k)
				}
				vals = append(vals, st[len(st)-1].Val)
			}
			bound := vals[0]
			if len(ps) == 2 {
				bound = "[" + vals[0] + ", " + vals[1] + "]"
			}
			if e.Val != bound {
				return fmt.Sprintf("event %d: loop variables bound to %s but the iterators yielded %s", i, e.Val, bound)
			}
			if i == 0 || evs[i-1].Kind != "Y" {
				return fmt.Sprintf("event %d: loop body not directly preceded by the yield that feeds it", i)
			}
			bs = append(bs, e.Val)
			inBody = true
		case "E":
			if !inBody {
				return fmt.Sprintf("event %d: body end without body start", i)
			}
			inBody = false
		case "RET":
			if !inBody {
				return fmt.Sprintf("event %d: return outside the body", i)
			}
			returned = true
		}
	}
	if strings.Join(bs, "|") != strings.Join(want, "|") {
		return fmt.Sprintf("loop bodies ran for %v, the pipeline model yields %v", bs, want)
	}
	if retAt >= 0 && len(want) > retAt && !returned {
		return "the body's return was not reached"
	}
	return ""
}

// c02Pre draws 0..2 pipelines consumed by loops that run before the payload loop.
func c02Pre(r *core.Rng, id *int) []*gen.Pipe {
	var pre []*gen.Pipe
	for k := r.Range(0, 2); k > 0; k-- {
		pre = append(pre, gen.RandPipe(r, r.Range(1, 2), id))
	}
	return pre
}

func c02Pipes(r *core.Rng) ([]*gen.Pipe, []string) {
	id := 100
	n := 1
	if r.Chance(1, 4) {
		n = 2
	}
	var ps []*gen.Pipe
	for i := 0; i < n; i++ {
		ps = append(ps, gen.RandPipe(r, r.Range(0, 3), &id))
	}
	var want []string
	a := ps[0].Model()
	if n == 1 {
		for _, x := range a {
			want = append(want, strconv.Itoa(x))
		}
	} else {
		b := ps[1].Model()
		for i := 0; i < len(a) && i < len(b); i++ {
			want = append(want, fmt.Sprintf("[%d, %d]", a[i], b[i]))
		}
	}
	return ps, want
}

func c02Trace(ctx *core.Ctx, idx int) core.Result {
	r := core.CaseRng(ctx.Seed, "C02/trace", idx)
	var res core.Result
	ps, want := c02Pipes(r)
	pid := 0
	pre := c02Pre(r, &pid)
	stmts, retAt, shape := c02Consumer(r, ps, true, pre)
	if !strings.HasPrefix(shape, "after-loops") {
		pre = nil
	}
	if retAt >= 0 && len(want) > retAt {
		want = want[:retAt+1]
	}
	var desc []string
	for _, p := range ps {
		desc = append(desc, p.String())
	}
	all := append(append([]ast.Node{}, pipeLibrary(true)...), stmts...)
	res.Hash = core.Mix(sessionHash(stmts) ^ uint64(idx%4))
	stress := []string{"plain", "tight", "pregrown", "plain"}[idx%4]
	doOut := (idx/4)%2 == 0
	in := map[string]any{"pipelines": desc, "consumer": sessionText(stmts), "stress": stress, "repl_mode": doOut, "consumer_shape": shape}
	// run on calc only: the laws need no reference
	opts := diffOpts{DoOut: doOut, Stress: stress}
	out, abort := runCalcOnly(all, opts)
	if abort != "" {
		res.Verdict = core.Violated
		res.Viol = &core.Violation{Monitor: "no-abort", Detail: abort, Input: in}
		return res
	}
	evs, bad := parseTrace(out)
	if bad == "" {
		bad = checkTrace(evs, ps, want, retAt, pre)
	}
	res.Add("trace_events", len(evs))
	res.Add("pipelines", len(ps))
	res.SetMax("max_iterator_contexts_forked_by_one_statement", maxForksSeen)
	res.SetMax("max_pipeline_depth", ps[0].Depth())
	for _, p := range ps {
		res.Tag("stage:" + p.Kind)
	}
	res.Tag("consumer:" + shape)
	if len(ps) == 2 {
		res.Tag("consumer:zip")
	}
	if retAt >= 0 && len(want) > retAt {
		res.Tag("consumer:early-return")
	}
	if bad != "" {
		in["trace"] = trunc(out, 1500)
		res.Verdict = core.Violated
		res.Viol = &core.Violation{Monitor: "trace-laws", Detail: bad, Input: in}
		return res
	}
	res.Verdict = core.Held
	res.Nontrivial = len(evs) >= 8
	res.Sample = in
	return res
}

// runCalcOnly executes a session and returns the concatenated program output.
var maxForksSeen int // largest number of iterator contexts one statement of a calc-only session forked (evidence)

func runCalcOnly(stmts []ast.Node, o diffOpts) (out string, abort string) {
	ses := calcrun.NewSession()
	ses.ForkLimit = 20000 // (the pipelines fork a few hundred iterator contexts at most; a runaway loop is cut short)
	if o.Stress == "tight" {
		setTight(true)
		defer setTight(false)
	}
	if o.Stress == "pregrown" {
		ses.Exec("vpre = (n) -> if n <= 0 0 else 1 + vpre(n-1)", false)
		ses.Exec("vpre(3000)", false)
	}
	for i, st := range stmts {
		obs := ses.Exec(ast.Print(st, nil), o.DoOut)
		if len(obs) != 1 {
			return out, fmt.Sprintf("statement %d executed as %d statements", i, len(obs))
		}
		ob := obs[0]
		if ob.Forks > maxForksSeen {
			maxForksSeen = ob.Forks
		}
		switch {
		case ob.Parse != nil:
			return out, fmt.Sprintf("statement %d rejected: %s", i, ob.Parse.Msg)
		case ob.Panic != nil:
			return out, fmt.Sprintf("statement %d panicked: %s at %s", i, ob.Panic.Msg, ob.Panic.Site)
		case ob.StepLimit || ob.Hang != "":
			return out, fmt.Sprintf("statement %d does not terminate", i)
		case ob.Err != "":
			return out, fmt.Sprintf("statement %d failed with a %s error:\n%s", i, ob.Err, trunc(ob.Report, 600))
		}
		out += ob.Out
	}
	return out, ""
}

func c02Diff(ctx *core.Ctx, idx int) core.Result {
	r := core.CaseRng(ctx.Seed, "C02/diff", idx)
	stress := []string{"plain", "tight", "pregrown", "plain"}[idx%4]
	opts := diffOpts{DoOut: (idx/4)%2 == 0, Stress: stress, Residue: true}
	var stmts []ast.Node
	var extra map[string]any
	if r.Chance(1, 2) {
		ps, _ := c02Pipes(r)
		if r.Chance(1, 3) {
			// the outermost stage first runs its source to the end in a loop of its own (its contexts are on the
			// free list when the consumer's body runs), untraced sessions only
			k := r.Intn(len(ps))
			ps[k] = &gen.Pipe{Kind: "pre", A: ps[k], ID: 900 + k}
		}
		pid := 0
		cons, _, shape := c02Consumer(r, ps, false, c02Pre(r, &pid))
		stmts = append(append([]ast.Node{}, pipeLibrary(false)...), cons...)
		if r.Chance(1, 6) {
			// a consumer whose frame is wider than a fresh iterator stack; the iterator expression reads its last local
			w := r.Range(126, 200)
			var ws []ast.Node
			for i := 0; i < w; i++ {
				ws = append(ws, ast.Assign{Name: wideName(i), Value: ast.Binary{Op: "+", L: nm("zn"), R: il(int64(i))}})
			}
			last := wideName(w - 1)
			ws = append(ws, ast.Assign{Name: "acc", Value: ast.ArrayLit{}},
				ast.For{Vars: []string{"v", "u"}, Iters: []ast.Node{icall("fromto", ast.Binary{Op: "-", L: nm(last), R: il(2)}, nm(last)), ps[0].Expr()}, Body: ast.Assign{Name: "acc", Value: ast.Binary{Op: "+", L: nm("acc"), R: ast.ArrayLit{Elems: []ast.Node{nm("v"), nm("u"), nm(wideName(w / 2))}}}}},
				nm("acc"))
			stmts = append(stmts, ast.Assign{Name: "vwide", Value: ast.FuncLit{Params: []string{"zn"}, Body: ast.Block{Stmts: ws}}}, icall("vwide", il(int64(r.Intn(9)))))
		}
		if r.Chance(1, 4) {
			// the value of the loops themselves: a function whose whole body is a loop nest (the inner iterator runs
			// dry on some rounds, then the nest's value is nil for that round) and a loop that only re-yields
			inner := ast.For{Vars: []string{"u"}, Iters: []ast.Node{icall("fromto", il(0), ast.Binary{Op: "-", L: il(int64(r.Range(1, 3))), R: ast.Binary{Op: "%", L: nm("v"), R: il(3)}})}, Body: ast.Binary{Op: "+", L: ast.Binary{Op: "*", L: nm("v"), R: il(10)}, R: nm("u")}}
			stmts = append(stmts,
				ast.Assign{Name: "vnest", Value: ast.FuncLit{Body: ast.For{Vars: []string{"v"}, Iters: []ast.Node{ps[0].Expr()}, Body: inner}}},
				icall("vnest"),
				ast.Assign{Name: "vglue", Value: ast.FuncLit{Body: ast.Block{Stmts: []ast.Node{ast.For{Vars: []string{"e"}, Iters: []ast.Node{ps[0].Expr()}, Body: ast.Yield{X: nm("e")}}, ast.Yield{X: ast.IntLit{V: 555}}}}}},
				ast.Block{Stmts: []ast.Node{ast.Assign{Name: "acc", Value: ast.ArrayLit{}}, ast.For{Vars: []string{"w"}, Iters: []ast.Node{icall("vglue")}, Body: ast.Assign{Name: "acc", Value: ast.Binary{Op: "+", L: nm("acc"), R: ast.ArrayLit{Elems: []ast.Node{nm("w")}}}}}, nm("acc")}},
				icall("vglue"))
			shape += "+loop-values"
		}
		extra = map[string]any{"consumer_shape": shape}
	} else {
		o := gen.DefaultOpts()
		o.MaxDepth = r.Range(2, 4)
		o.LoopBound = 4
		g := gen.New(r, o)
		// generator-heavy: several generator definitions, then loops over them
		for k := r.Range(1, 3); k > 0; k-- {
			t := gen.GenOf([]gen.Ty{gen.Int, gen.Str}[r.Intn(2)])
			if r.Bool() {
				t = gen.GenOf(gen.Int, gen.Int)
			}
			name := g.FreshName()
			f := g.FuncLit(t, o.MaxDepth)
			g.Globals = append(g.Globals, gen.Var{Name: name, T: t})
			stmts = append(stmts, ast.Assign{Name: name, Value: f})
		}
		stmts = append(stmts, g.Session(r.Range(2, 5))...)
	}
	d := runDiff(stmts, opts)
	res := diffCase("C02", stmts, opts, d, extra)
	res.Nontrivial = res.Nontrivial && d.Stats.Yields > 0
	return res
}

// c02YieldOperand: a yield evaluates to its operand as it was when the yield
// ran, also when the loop body changes the operand's variable before the
// generator is resumed. Operand kinds: global, captured, local, parameter,
// constant, expression; the body assigns the variable or leaves it alone.
func c02YieldOperand(ctx *core.Ctx, idx int) core.Result {
	r := core.CaseRng(ctx.Seed, "C02/yieldoperand", idx)
	k := int64(r.Range(2, 5))
	bump := func(v string) ast.Node {
		return ast.Assign{Name: v, Value: ast.Binary{Op: "+", L: ast.Binary{Op: "*", L: nm(v), R: il(k)}, R: il(1)}}
	}
	// between its two yields the generator recurses deep enough (sometimes) to outgrow its private stack
	deep := int64([]int{0, 0, 4, 60, 180}[r.Intn(5)])
	hdef := func(args []ast.Node) ast.Node {
		return ast.Assign{Name: "h", Value: ast.FuncLit{Body: ast.Block{Stmts: []ast.Node{ast.Assign{Name: "a", Value: ast.Call{Fn: "emit", Args: args}}, icall("zdeep", il(deep)), ast.Assign{Name: "b", Value: ast.Call{Fn: "emit", Args: args}}, ast.Yield{X: ast.ArrayLit{Elems: []ast.Node{nm("a"), nm("b")}}}}}}}
	}
	zdeep := ast.Assign{Name: "zdeep", Value: ast.FuncLit{Params: []string{"q"}, Body: ast.If{Cond: ast.Binary{Op: "<=", L: nm("q"), R: il(0)}, Then: il(0), Else: ast.Binary{Op: "+", L: il(1), R: icall("zdeep", ast.Binary{Op: "-", L: nm("q"), R: il(1)})}}}}
	loop := func(v string) []ast.Node {
		return []ast.Node{ast.Assign{Name: "seen", Value: ast.ArrayLit{}},
			ast.For{Vars: []string{"v"}, Iters: []ast.Node{icall("h")}, Body: ast.Block{Stmts: []ast.Node{ast.Assign{Name: "seen", Value: ast.Binary{Op: "+", L: nm("seen"), R: ast.ArrayLit{Elems: []ast.Node{nm("v")}}}}, bump(v)}}},
			ast.ArrayLit{Elems: []ast.Node{nm("seen"), nm(v)}}}
	}
	var stmts []ast.Node
	kind := idx % 7
	names := []string{"global", "captured", "local", "parameter", "constant", "expression", "global-reread"}
	switch kind {
	case 6: // the generator itself re-reads the global the body assigned, touching no other global in between
		var g ast.Node
		if r.Chance(1, 2) {
			g = ast.Block{Stmts: []ast.Node{ast.Yield{X: nm("n")}, ast.Yield{X: nm("n")}, ast.Yield{X: ast.Binary{Op: "+", L: nm("n"), R: nm("n")}}}}
		} else {
			g = ast.Block{Stmts: []ast.Node{ast.Assign{Name: "i", Value: il(0)}, ast.While{Cond: ast.Binary{Op: "<", L: nm("i"), R: il(3)}, Body: ast.Block{Stmts: []ast.Node{ast.Yield{X: nm("n")}, ast.Assign{Name: "i", Value: ast.Binary{Op: "+", L: nm("i"), R: il(1)}}}}}}}
		}
		stmts = []ast.Node{ast.Assign{Name: "n", Value: il(1)}, ast.Assign{Name: "h", Value: ast.FuncLit{Body: g}}, ast.Block{Stmts: loop("n")}}
	case 0: // bare global, the (top level) body assigns it
		stmts = []ast.Node{ast.Assign{Name: "n", Value: il(1)}, ast.Assign{Name: "emit", Value: ast.FuncLit{Body: ast.Yield{X: nm("n")}}}, hdef(nil), ast.Block{Stmts: loop("n")}}
	case 1: // captured variable of the function that runs the loop
		body := append([]ast.Node{ast.Assign{Name: "c", Value: il(1)}, ast.Assign{Name: "emit", Value: ast.FuncLit{Body: ast.Yield{X: nm("c")}}}, hdef(nil)}, loop("c")...)
		stmts = []ast.Node{ast.Assign{Name: "mk", Value: ast.FuncLit{Body: ast.Block{Stmts: body}}}, icall("mk")}
	default: // local / parameter / constant / expression operands, the body computes in between
		var operand ast.Node
		params := []string{}
		var pre []ast.Node
		switch kind {
		case 2:
			pre = []ast.Node{ast.Assign{Name: "loc", Value: il(int64(r.Intn(50)))}}
			operand = nm("loc")
		case 3:
			params = []string{"p"}
			operand = nm("p")
		case 4:
			operand = il(int64(r.Intn(50)))
		default:
			params = []string{"p"}
			operand = ast.Binary{Op: "+", L: ast.Binary{Op: "*", L: nm("p"), R: il(2)}, R: il(1)}
		}
		body := append(pre, ast.Yield{X: operand})
		var eb ast.Node = body[0]
		if len(body) > 1 {
			eb = ast.Block{Stmts: body}
		}
		var args []ast.Node
		if len(params) > 0 {
			args = []ast.Node{il(int64(r.Intn(9)))}
		}
		stmts = []ast.Node{ast.Assign{Name: "emit", Value: ast.FuncLit{Params: params, Body: eb}}, hdef(args), ast.Assign{Name: "q", Value: il(3)}, ast.Block{Stmts: loop("q")}}
	}
	stmts = append([]ast.Node{zdeep}, stmts...)
	// (the operand kind is idx%7: the mode must not be a function of it)
	opts := diffOpts{DoOut: (idx/6)%4 != 3, Stress: stressModes[(idx/24)%len(stressModes)], Residue: true}
	d := runDiff(stmts, opts)
	res := diffCase("C02", stmts, opts, d, map[string]any{"family": "yieldoperand", "operand": names[kind], "recursion_between_yields": deep})
	res.Tag("yield-operand:" + names[kind])
	res.Nontrivial = d.Verdict == core.Held && d.Stats.Yields >= 3
	return res
}

func init() {
	register(&core.Property{
		ID:          "C02",
		Rule:        "(1) trace family: random generator pipelines of depth 0..3 over a calc-written combinator library (leaf fromto/elems/counting/recursive generators, map, filter, chain, take with early return, nest) whose every yield is bracketed by trace writes, consumed by a plain or zipped for loop whose body does temp-register arithmetic, calls or its own loop, optionally returns at the k-th iteration, placed at top level, in a function, at recursion depth 1..30, or after other loops of the same statement (recycled contexts); plain/tight/pregrown allocation, REPL and script mode; the recorded event trace is checked against the stack/alternation/abandon laws and against a list model of the pipeline. (2) diff family: the same pipelines untraced and generator-heavy typed sessions against the reference semantics with residue checks. non-trivial = trace of >= 8 events / session with >= 1 yield and >= 25 reference steps.",
		Assumptions: []string{"the list model of a pipeline (map/filter/chain/take/nest/zip over constant leaves) is trusted; the trace laws themselves need no model of calc"},
		Families: []core.Family{
			{Name: "corpus", Count: func(string) int { return len(corpusSessions()) * 2 * len(stressModes) }, Run: func(_ *core.Ctx, idx int) core.Result { return corpusCase("C02", idx, true) }},
			{Name: "trace", Count: countFn(10000, 600000), Run: c02Trace},
			{Name: "diff", Count: countFn(8000, 400000), Run: c02Diff},
			{Name: "yieldoperand", Count: countFn(600, 30000), Run: c02YieldOperand},
			{Name: "yieldedclosures", Count: countFn(2500, 100000), Run: func(ctx *core.Ctx, idx int) core.Result { return hofCase("C02", ctx, idx, -1) }},
			{Name: "deeploops", Count: countFn(48, 1200), Run: func(ctx *core.Ctx, idx int) core.Result { return depthCase("C02", ctx, idx) }},
		},
		Floors: []core.Floor{{Key: "trace_events", Quick: 60000, Thor: 8000000}, {Key: "yields", Quick: 20000, Thor: 2000000}, {Key: "tag:stage:", Quick: 10, Thor: 10}, {Key: "tag:consumer:", Quick: 6, Thor: 6}, {Key: "tag:yield-operand:", Quick: 6, Thor: 6}, {Key: "context_clone_reuse", Quick: 500, Thor: 50000}},
	})
}
