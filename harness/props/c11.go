//go:build !skip_c11

package props

import (
	"fmt"
	"math"
	"strings"

	"github.com/paulsonkoly/calc/types/bytecode"
	"github.com/paulsonkoly/calc/types/value"

	"verif/calcrun"
	"verif/core"
	"verif/val"
)

// C11 — operators obey the documented value algebra on every operand pair.
// Monitor: independent model (val) + algebraic laws evaluated on calc's own
// results, applied to the exported operator methods. The VM legs (plain and
// TMP opcode forms) live in c11vm.go.

var binOps = []string{"+", "-", "*", "/", "%", "&", "|", "&&", "||", "<", ">", "<=", ">=", "==", "!=", "<<", ">>"}
var unOps = []string{"-", "#", "!", "~"}

func c11Pool() []val.Value {
	I, F, S, A := val.IntV, val.FloatV, val.StrV, val.ArrV
	p := []val.Value{
		val.NilV, val.FunV(nil),
		I(0), I(1), I(-1), I(2), I(-2), I(3), I(7), I(63), I(64), I(65), I(-64), I(1 << 31), I(-(1 << 31)), I(1 << 53), I(1<<53 + 1), I(1 << 62), I(-(1 << 62)),
		I(math.MaxInt64), I(math.MinInt64), I(math.MaxInt64 - 1), I(math.MinInt64 + 1),
		F(0), F(math.Copysign(0, -1)), F(0.5), F(-0.5), F(1), F(-1), F(2), F(3), F(1 << 53), F(1<<53 + 2), F(-(1 << 53)), F(1e300), F(-1e300), F(5e-324),
		F(math.Inf(1)), F(math.Inf(-1)), F(math.NaN()), F(9.223372036854775807e18),
		val.BoolV(true), val.BoolV(false),
		S(""), S("a"), S("ab"), S("abc"), S("hello world"), S("\n"), S("é"), S("日本"), S("1"), S("true"),
		A(nil), A([]val.Value{I(1)}), A([]val.Value{I(1), I(2)}), A([]val.Value{F(1), F(2)}), A([]val.Value{I(1), I(2), I(3)}),
		A([]val.Value{A(nil)}), A([]val.Value{A([]val.Value{I(1)}), S("x"), val.BoolV(true)}),
		A([]val.Value{val.FunV(nil)}), A([]val.Value{S("a"), S("b")}), A([]val.Value{F(math.NaN())}),
		A([]val.Value{I(1), A([]val.Value{I(2), A([]val.Value{I(3)})})}), A([]val.Value{val.NilV}),
	}
	return p
}

func calcBinary(op string, a, b value.Type) (value.Type, error) {
	switch op {
	case "+":
		return a.Arith(bytecode.ADD, b)
	case "-":
		return a.Arith(bytecode.SUB, b)
	case "*":
		return a.Arith(bytecode.MUL, b)
	case "/":
		return a.Arith(bytecode.DIV, b)
	case "%":
		return a.Mod(b)
	case "&", "&&":
		return a.Logic(bytecode.AND, b)
	case "|", "||":
		return a.Logic(bytecode.OR, b)
	case "<":
		return a.Relational(bytecode.LT, b)
	case ">":
		return a.Relational(bytecode.GT, b)
	case "<=":
		return a.Relational(bytecode.LE, b)
	case ">=":
		return a.Relational(bytecode.GE, b)
	case "==":
		return a.Eq(bytecode.EQ, b)
	case "!=":
		return a.Eq(bytecode.NE, b)
	case "<<":
		return a.Shift(bytecode.LSH, b)
	case ">>":
		return a.Shift(bytecode.RSH, b)
	}
	panic("calcBinary " + op)
}

func calcUnary(op string, a value.Type) (value.Type, error) {
	switch op {
	case "-":
		// the language defines -e as -1 * e
		return value.NewInt(-1).Arith(bytecode.MUL, a)
	case "#":
		return a.Len()
	case "!":
		return a.Not()
	case "~":
		return a.Flip()
	}
	panic("calcUnary " + op)
}

// outcomeOK compares what calc returned to the model outcome.
func outcomeOK(want val.Outcome, got value.Type, err error) (bool, string) {
	cls := calcrun.ErrClass(err)
	switch want.Kind {
	case val.OVal:
		if err != nil {
			return false, fmt.Sprintf("expected %s, got error %q", val.Debug(want.V), cls)
		}
		g := calcrun.FromCalc(got)
		if !val.Same(g, want.V) {
			return false, fmt.Sprintf("expected %s, got %s", val.Debug(want.V), val.Debug(g))
		}
	case val.OErr:
		if cls != want.Err {
			if err == nil {
				return false, fmt.Sprintf("expected %s error, got value %s", want.Err, val.Debug(calcrun.FromCalc(got)))
			}
			return false, fmt.Sprintf("expected %s error, got %q", want.Err, cls)
		}
	case val.OAnyErr:
		if err == nil {
			return false, fmt.Sprintf("expected an error (%s), got value %s", want.Why, val.Debug(calcrun.FromCalc(got)))
		}
		if !documentedErrs[cls] {
			return false, fmt.Sprintf("undocumented error %q", cls)
		}
	case val.OIntOrErr:
		if err == nil {
			if _, ok := got.ToInt(); !ok {
				return false, fmt.Sprintf("expected an int or an error (%s), got %s", want.Why, val.Debug(calcrun.FromCalc(got)))
			}
		} else if !documentedErrs[cls] {
			return false, fmt.Sprintf("undocumented error %q", cls)
		}
	case val.OUnspec:
		if err != nil && !documentedErrs[cls] {
			return false, fmt.Sprintf("undocumented error %q", cls)
		}
	}
	return true, ""
}

type c11case struct {
	res         core.Result
	desc        []string
	sameStorage bool
}

func (c *c11case) fail(monitor, input, detail string) {
	if c.res.Verdict == core.Violated {
		c.res.Viol.Detail += " | " + input + ": " + detail
		return
	}
	c.res.Verdict = core.Violated
	c.res.Viol = &core.Violation{Monitor: monitor, Detail: input + ": " + detail, Input: input}
}

// guard runs f and converts a panic into a violation.
func (c *c11case) guard(input string, f func()) {
	defer func() {
		if r := recover(); r != nil {
			c.fail("no-abort", input, fmt.Sprintf("panic: %v", r))
		}
	}()
	f()
}

func (c *c11case) binary(op string, a, b val.Value) {
	in := fmt.Sprintf("%s %s %s", val.Debug(a), op, val.Debug(b))
	c.guard(in, func() {
		ca, cb := calcrun.ToCalc(a), calcrun.ToCalc(b)
		if c.sameStorage {
			cb = ca // one value used as both operands (x op x)
			in += " [same storage]"
		}
		got, err := calcBinary(op, ca, cb)
		want := val.Binary(op, a, b)
		if ok, d := outcomeOK(want, got, err); !ok {
			c.fail("value-model", in, d)
		}
		c.res.Add("tuples", 1)
		c.res.Tag("op:" + op + "/" + a.K.String() + "/" + b.K.String())
	})
}

// calcBool evaluates a binary operator on calc and returns (bool result, is error).
func calcBool(op string, a, b value.Type) (bool, bool) {
	v, err := calcBinary(op, a, b)
	if err != nil {
		return false, true
	}
	r, ok := v.ToBool()
	if !ok {
		return false, true
	}
	return r, false
}

// laws evaluates the reference-free algebraic laws on calc's own answers.
func (c *c11case) laws(a, b val.Value) {
	in := fmt.Sprintf("laws(%s, %s)", val.Debug(a), val.Debug(b))
	c.guard(in, func() {
		ca, cb := calcrun.ToCalc(a), calcrun.ToCalc(b)
		if c.sameStorage {
			cb = ca
			// slices of one array share storage too
			if a.K == val.Arr && len(a.A) > 0 {
				s1, e1 := ca.Index(value.NewInt(0), value.NewInt(len(a.A)))
				s2, e2 := ca.Index(value.NewInt(0), value.NewInt(len(a.A)))
				if e1 == nil && e2 == nil {
					want := val.Binary("==", a, a)
					got, err := s1.Eq(bytecode.EQ, s2)
					if ok, d := outcomeOK(want, got, err); !ok {
						c.fail("value-model", in+" [equal slices of one array]", d)
					}
				}
			}
		}
		eqab, e1 := calcBool("==", ca, cb)
		eqba, e2 := calcBool("==", cb, ca)
		neab, e3 := calcBool("!=", ca, cb)
		if e1 != e2 || eqab != eqba {
			c.fail("law", in, "== is not symmetric")
		}
		if e1 != e3 || (!e1 && neab == eqab) {
			c.fail("law", in, "!= is not the negation of ==")
		}
		if (a.K == val.Nil || b.K == val.Nil) && !e1 {
			c.fail("law", in, "== with a nil operand did not raise an error")
		}
		if a.K == val.Fun && b.K == val.Fun && (e1 || eqab) {
			c.fail("law", in, "function == function is not false")
		}
		num := func(v val.Value) bool { return v.K == val.Int || v.K == val.Float }
		if num(a) && num(b) {
			lt, x1 := calcBool("<", ca, cb)
			gtr, x2 := calcBool(">", cb, ca)
			le, x3 := calcBool("<=", ca, cb)
			ger, x4 := calcBool(">=", cb, ca)
			if x1 || x2 || x3 || x4 {
				c.fail("law", in, "relational operator failed on numbers")
			}
			if lt != gtr {
				c.fail("law", in, "a<b differs from b>a")
			}
			if le != ger {
				c.fail("law", in, "a<=b differs from b>=a")
			}
			if le != (lt || eqab) {
				c.fail("law", in, "a<=b differs from (a<b or a==b)")
			}
		}
		if a.K == val.Int && float64(a.I) == math.Trunc(float64(a.I)) && int64(float64(a.I)) == a.I && math.Abs(float64(a.I)) < 1<<62 {
			r, e := calcBool("==", ca, value.NewFloat(float64(a.I)))
			if e || !r {
				c.fail("law", in, fmt.Sprintf("int %d does not equal the float of the same value", a.I))
			}
		}
		// a shift by m+n is the shift by m followed by the shift by n: ties the counts above 63 (which the
		// README's one word "bitshift" leaves to the law) to the counts 0..63 the model specifies
		if a.K == val.Int && b.K == val.Int && b.I >= 0 && b.I <= 63 {
			for _, op := range []string{"<<", ">>"} {
				if op == ">>" && a.I < 0 {
					continue
				}
				for _, n := range []int64{1, 63, 64 - b.I} {
					if n < 0 || n > 63 || b.I+n <= 63 {
						continue
					}
					s1, e1 := calcBinary(op, ca, cb)
					if e1 != nil {
						continue
					}
					two, e2 := calcBinary(op, s1, value.NewInt(int(n)))
					one, e3 := calcBinary(op, ca, value.NewInt(int(b.I+n)))
					if e2 != nil || e3 != nil {
						continue // an error for an oversized count is not excluded by the README
					}
					x, okx := two.ToInt()
					y, oky := one.ToInt()
					if !okx || !oky || x != y {
						c.fail("law", in, fmt.Sprintf("(a %s %d) %s %d = %v but a %s %d = %v", op, b.I, op, n, two, op, b.I+n, one))
					}
					c.res.Add("shift_composition_laws", 1)
				}
			}
		}
		// #(a+b) == #a + #b for arrays and strings
		if (a.K == val.Arr && b.K == val.Arr) || (a.K == val.Str && b.K == val.Str) {
			s, err := calcBinary("+", ca, cb)
			if err != nil {
				c.fail("law", in, "concatenation failed")
				return
			}
			ls, _ := s.Len()
			la, _ := ca.Len()
			lb, _ := cb.Len()
			x, _ := ls.ToInt()
			y, _ := la.ToInt()
			z, _ := lb.ToInt()
			if x != y+z {
				c.fail("law", in, fmt.Sprintf("#(a+b)=%d but #a+#b=%d", x, y+z))
			}
		}
		c.res.Add("law_evaluations", 1)
	})
}

func (c *c11case) unary(op string, a val.Value) {
	in := fmt.Sprintf("%s %s", op, val.Debug(a))
	c.guard(in, func() {
		got, err := calcUnary(op, calcrun.ToCalc(a))
		want := val.Unary(op, a)
		if ok, d := outcomeOK(want, got, err); !ok {
			c.fail("value-model", in, d)
		}
		c.res.Add("tuples", 1)
		c.res.Tag("op:un" + op + "/" + a.K.String())
	})
}

// indexAll sweeps every (i, j) around the bounds of s plus faulty index kinds.
func (c *c11case) indexAll(s val.Value, extra []val.Value) {
	n := 0
	switch s.K {
	case val.Str:
		n = len(s.S)
	case val.Arr:
		n = len(s.A)
	}
	cs := calcrun.ToCalc(s)
	var idx []val.Value
	for i := -2; i <= n+2; i++ {
		idx = append(idx, val.IntV(int64(i)))
	}
	idx = append(idx, val.IntV(math.MaxInt64), val.IntV(math.MinInt64))
	idx = append(idx, extra...)
	for _, i := range idx {
		in := fmt.Sprintf("%s[%s]", val.Debug(s), val.Debug(i))
		c.guard(in, func() {
			got, err := cs.Index(calcrun.ToCalc(i))
			if ok, d := outcomeOK(val.IndexAt(s, i), got, err); !ok {
				c.fail("value-model", in, d)
			}
			c.res.Add("tuples", 1)
		})
		for _, j := range idx {
			in := fmt.Sprintf("%s[%s:%s]", val.Debug(s), val.Debug(i), val.Debug(j))
			c.guard(in, func() {
				got, err := cs.Index(calcrun.ToCalc(i), calcrun.ToCalc(j))
				want := val.Slice(s, i, j)
				if ok, d := outcomeOK(want, got, err); !ok {
					c.fail("value-model", in, d)
				}
				c.res.Add("tuples", 1)
				// laws on calc's own results, valid bounds only
				if want.Kind == val.OVal && err == nil {
					l, _ := got.Len()
					li, _ := l.ToInt()
					if int64(li) != j.I-i.I {
						c.fail("law", in, fmt.Sprintf("#(s[i:j]) = %d, want %d", li, j.I-i.I))
					}
					if i.I == j.I { // s[0:i] + s[i:#s] == s
						lo, e1 := cs.Index(value.NewInt(0), calcrun.ToCalc(i))
						hi, e2 := cs.Index(calcrun.ToCalc(i), value.NewInt(n))
						if e1 != nil || e2 != nil {
							c.fail("law", in, "split slices failed")
						} else {
							cat, e3 := lo.Arith(bytecode.ADD, hi)
							if e3 != nil || !val.Same(calcrun.FromCalc(cat), s) {
								c.fail("law", in, "s[0:i]+s[i:#s] != s")
							}
						}
					}
					if j.I == i.I+1 { // s[i] vs s[i:i+1]
						one, e1 := cs.Index(calcrun.ToCalc(i))
						if e1 != nil {
							c.fail("law", in, "s[i] failed where s[i:i+1] worked")
						} else if s.K == val.Str {
							if s.S[i.I] < 0x80 && !val.Same(calcrun.FromCalc(one), calcrun.FromCalc(got)) {
								c.fail("law", in, "s[i] != s[i:i+1] on an ASCII string")
							}
						} else if !val.Same(val.ArrV([]val.Value{calcrun.FromCalc(one)}), calcrun.FromCalc(got)) {
							c.fail("law", in, "[s[i]] != s[i:i+1] on an array")
						}
					}
					c.res.Add("law_evaluations", 1)
				}
			})
		}
	}
	c.res.Tag("op:index/" + s.K.String())
	// the same value as a prefix of a longer one (an array with spare capacity behind its last element): every
	// bound beyond its own length is an index error, whatever lies behind it
	if s.K == val.Arr && n <= 6 {
		long := calcrun.ToCalc(val.ArrV(append(append([]val.Value{}, s.A...), val.IntV(91), val.IntV(92), val.IntV(93))))
		pre, err := long.Index(value.NewInt(0), value.NewInt(n))
		if err == nil {
			for i := 0; i <= n+4; i++ {
				for j := i; j <= n+4; j++ {
					in := fmt.Sprintf("prefix-of-longer %s[%d:%d]", val.Debug(s), i, j)
					c.guard(in, func() {
						got, e := pre.Index(value.NewInt(i), value.NewInt(j))
						if ok, d := outcomeOK(val.Slice(s, val.IntV(int64(i)), val.IntV(int64(j))), got, e); !ok {
							c.fail("value-model", in, d)
						}
						c.res.Add("tuples", 1)
					})
				}
				in := fmt.Sprintf("prefix-of-longer %s[%d]", val.Debug(s), i)
				c.guard(in, func() {
					got, e := pre.Index(value.NewInt(i))
					if ok, d := outcomeOK(val.IndexAt(s, val.IntV(int64(i))), got, e); !ok {
						c.fail("value-model", in, d)
					}
				})
			}
		}
	}
}

// randValue draws a value; depth bounds array nesting.
func randValue(r *core.Rng, depth int) val.Value {
	k := r.Pick(1, 30, 22, 6, 14, 12, 1)
	if depth <= 0 && k == 5 {
		k = 1
	}
	switch k {
	case 0:
		return val.NilV
	case 1:
		switch r.Intn(6) {
		case 0:
			return val.IntV(int64(r.Range(-3, 70)))
		case 1:
			return val.IntV(int64(r.U64()))
		case 2:
			return val.IntV(int64(1)<<uint(r.Intn(64)) + int64(r.Range(-1, 1)))
		case 3:
			return val.IntV(-(int64(1)<<uint(r.Intn(63)) + int64(r.Range(-1, 1))))
		default:
			return val.IntV(int64(r.Range(-1000, 1000)))
		}
	case 2:
		switch r.Intn(6) {
		case 0:
			return val.FloatV(math.Float64frombits(r.U64()))
		case 1:
			return val.FloatV(float64(r.Range(-50, 50)) / 4)
		case 2:
			return val.FloatV(float64(int64(r.U64())))
		case 3:
			return val.FloatV([]float64{0, math.Copysign(0, -1), math.Inf(1), math.Inf(-1), math.NaN(), 5e-324, math.MaxFloat64}[r.Intn(7)])
		default:
			return val.FloatV((r.Float() - 0.5) * math.Pow(10, float64(r.Range(-5, 20))))
		}
	case 3:
		return val.BoolV(r.Bool())
	case 4:
		n := r.Range(0, 6)
		var sb strings.Builder
		for i := 0; i < n; i++ {
			if r.Chance(1, 12) {
				sb.WriteString([]string{"é", "日", "\n", "\"", " ", "%", "%d", "%s"}[r.Intn(8)])
			} else {
				sb.WriteByte(byte('a' + r.Intn(26)))
			}
		}
		return val.StrV(sb.String())
	case 5:
		n := r.Range(0, 5)
		a := make([]val.Value, n)
		for i := range a {
			a[i] = randValue(r, depth-1)
		}
		return val.ArrV(a)
	default:
		return val.FunV(nil)
	}
}

func c11Finish(c *c11case, in string) core.Result {
	if c.res.Verdict == "" {
		c.res.Verdict = core.Held
	}
	c.res.Hash = core.HashString(in)
	c.res.Nontrivial = true
	c.res.Sample = in
	return c.res
}

func init() {
	pool := c11Pool()
	n := len(pool)
	register(&core.Property{
		ID: "C11",
		Rule: "operand tuples: (1) every ordered pair of a " + fmt.Sprint(n) + "-value pool (nil, function, boundary ints, signed zeros, infinities, NaN, 2^53 neighbours, bools, empty/ASCII/multi-byte strings, empty/nested/heterogeneous arrays) x all 17 binary operator spellings, (2) every pool value x 4 unary operators, " +
			"(3) every string/array of the pool x every (i,j) in -2..len+2 plus MinInt/MaxInt and non-int/nil indices for s[i] and s[i:j], (4) seeded random tuples (random bit-pattern floats, power-of-two neighbour ints, nested arrays), (5) the same tuples through compiled programs. A case is one operand pair (all operators and laws applied to it); distinct = distinct operand pair text; every case is non-trivial (at least one operator application is compared with the model).",
		Assumptions: []string{
			"the model in harness/val is the README operator tables + the C11 statement (DESIGN.md Appendix A); cells the documentation leaves open (shift counts outside 0..63, >> of negatives, nil inside compared arrays, non-ASCII string bytes, several faulty operands at once) only require 'a documented error or a value of the right shape, no crash'",
			"float rendering/arithmetics are IEEE-754 as Go implements them",
		},
		Families: []core.Family{
			{Name: "pairs", Count: func(string) int { return n * n }, Run: func(_ *core.Ctx, idx int) core.Result {
				a, b := pool[idx/n], pool[idx%n]
				c := &c11case{}
				for _, op := range binOps {
					c.binary(op, a, b)
				}
				c.laws(a, b)
				if idx/n == idx%n {
					c.sameStorage = true
					for _, op := range binOps {
						c.binary(op, a, a)
					}
					c.laws(a, a)
					c.res.Add("same_storage_pairs", 1)
				}
				return c11Finish(c, fmt.Sprintf("pair(%s, %s)", val.Debug(a), val.Debug(b)))
			}},
			{Name: "unary", Count: func(string) int { return n }, Run: func(_ *core.Ctx, idx int) core.Result {
				c := &c11case{}
				for _, op := range unOps {
					c.unary(op, pool[idx])
				}
				return c11Finish(c, fmt.Sprintf("unary(%s)", val.Debug(pool[idx])))
			}},
			{Name: "index", Count: func(string) int { return n }, Run: func(_ *core.Ctx, idx int) core.Result {
				c := &c11case{}
				extra := []val.Value{val.NilV, val.FloatV(1), val.BoolV(true), val.StrV("1"), val.ArrV(nil), val.FunV(nil)}
				c.indexAll(pool[idx], extra)
				return c11Finish(c, fmt.Sprintf("index(%s)", val.Debug(pool[idx])))
			}},
			{Name: "vm", Count: func(string) int { return n * n }, Run: func(_ *core.Ctx, idx int) core.Result { return c11VMCase(pool, idx) }},
			{Name: "random", Count: countFn(150000, 3000000), Run: func(ctx *core.Ctx, idx int) core.Result {
				r := core.CaseRng(ctx.Seed, "C11/random", idx)
				a, b := randValue(r, 2), randValue(r, 2)
				c := &c11case{}
				if r.Chance(1, 4) {
					b = a
					c.sameStorage = r.Bool()
				}
				for _, op := range binOps {
					c.binary(op, a, b)
				}
				c.laws(a, b)
				for _, op := range unOps {
					c.unary(op, a)
				}
				if (a.K == val.Str || a.K == val.Arr) && r.Chance(1, 4) {
					c.indexAll(a, []val.Value{b})
				}
				return c11Finish(c, fmt.Sprintf("random(%s, %s)", val.Debug(a), val.Debug(b)))
			}},
		},
		Sanitize: []string{"pairs", "unary", "index", "random"},
		Floors:   []core.Floor{{Key: "tuples", Quick: 300000, Thor: 3000000}, {Key: "law_evaluations", Quick: 20000, Thor: 2000000}, {Key: "tag:op:", Quick: 400, Thor: 400}, {Key: "same_storage_pairs", Quick: 60, Thor: 60}, {Key: "vm_plain_forms", Quick: 60000, Thor: 60000}, {Key: "vm_temp_forms", Quick: 40000, Thor: 40000}, {Key: "vm_literal_forms", Quick: 200000, Thor: 200000}, {Key: "tag:shape:", Quick: 34, Thor: 34}, {Key: "nontrivial", Quick: 20000, Thor: 1000000}},
		Extra: func(a *core.Agg, cov map[string]any) {
			cov["exhaustive_subspaces"] = "pairs, unary and index families enumerate the pool completely in both tiers"
		},
	})
}
