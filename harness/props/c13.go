//go:build !skip_c13

package props

import (
	"fmt"
	"strings"

	c "github.com/paulsonkoly/calc/combinator"
	"github.com/paulsonkoly/calc/lexer"
	"github.com/paulsonkoly/calc/types/token"

	"verif/core"
)

// C13 — backtracking is invisible.
// (1) TLexer against a model: the token list of a fresh lexer.Lexer over the
//     same input, a cursor and a stack of cursors.
// (2) random combinator expressions against a pure ordered-choice recogniser
//     with explicit position passing.

type lexEntry struct {
	Kind     token.Kind
	Text     string
	Err      string
	From, To int
}

// freshScan drives a fresh plain lexer to the end and records what each
// successful Next() exposes.
func freshScan(input string) []lexEntry {
	l := lexer.NewLexer(input)
	var out []lexEntry
	for l.Next() {
		e := lexEntry{Kind: l.Token.Type, Text: l.Token.Value}
		if l.Err != nil {
			e.Err = l.Err.Error()
		}
		e.From, e.To = l.VerifFromTo()
		out = append(out, e)
		if len(out) > len(input)+16 {
			break
		}
	}
	return out
}

func c13TLexer(ctx *core.Ctx, idx int) core.Result {
	r := core.CaseRng(ctx.Seed, "C13/tlexer", idx)
	var res core.Result
	var input string
	long := false
	switch r.Intn(4) {
	case 0:
		cs := corpus()
		input = cs[r.Intn(len(cs))]
		if len(input) > 200 {
			a := r.Intn(len(input) - 200)
			input = input[a : a+200]
		}
	case 1:
		// long input: the replay buffer and the read position go far past any small constant
		long = true
		var sb strings.Builder
		for k := r.Range(300, 900); k > 0; k-- {
			switch r.Intn(6) {
			case 0:
				sb.WriteString(fmt.Sprintf("%d ", r.Intn(1000)))
			case 1:
				sb.WriteString([]string{"+ ", "( ", ") ", "== ", ", ", "-> ", "\n", "[ ", "] "}[r.Intn(9)])
			default:
				sb.WriteString(fmt.Sprintf("j%c%c ", 'a'+r.Intn(26), 'a'+r.Intn(26)))
			}
		}
		input = sb.String()
	default:
		input = genLexText(r)
	}
	// stay away from inputs on which the plain lexer itself does not
	// terminate normally (C06's subject)
	if o := runLexer(input); o.Hang || o.Panic != "" {
		res.Verdict = core.Inconclusive
		res.Reason = "plain lexer aborted (decided by C06)"
		return res
	}
	model := freshScan(input)
	tl := lexer.NewTLexer(input)
	cur := -1
	var stack []int
	var ops []string
	nops := r.Range(5, 120)
	weights := []int{50, 20, 15, 15}
	if long {
		nops = r.Range(500, 3000)
		weights = []int{68, 12, 8, 12}
	}
	fail := func(d string) core.Result {
		res.Verdict = core.Violated
		res.Viol = &core.Violation{Monitor: "tlexer-model", Detail: d, Input: map[string]any{"text": input, "ops": strings.Join(ops, " ")}}
		return res
	}
	var pan any
	func() {
		defer func() { pan = recover() }()
		for i := 0; i < nops; i++ {
			op := r.Pick(weights...)
			if (op == 2 || op == 3) && len(stack) == 0 {
				op = 1
			}
			switch op {
			case 0:
				ops = append(ops, "N")
				got := tl.Next()
				want := cur+1 < len(model)
				if want {
					cur++
				}
				if got != want {
					res = fail(fmt.Sprintf("op %d Next() = %v, model %v", i, got, want))
					return
				}
			case 1:
				ops = append(ops, "S")
				tl.Snapshot()
				stack = append(stack, cur)
			case 2:
				ops = append(ops, "R")
				tl.Rollback()
				cur = stack[len(stack)-1]
				stack = stack[:len(stack)-1]
				res.Add("rollbacks", 1)
			case 3:
				ops = append(ops, "C")
				tl.Commit()
				stack = stack[:len(stack)-1]
			}
			// (the read position inside the replay buffer is not compared: a buffer may legally be compacted)
			if tl.VerifSnapshotDepth() != len(stack) {
				res = fail(fmt.Sprintf("op %d: snapshot depth %d, model %d", i, tl.VerifSnapshotDepth(), len(stack)))
				return
			}
			if cur >= 0 {
				t := tl.Token().(token.Type)
				e := ""
				if tl.Err() != nil {
					e = tl.Err().Error()
				}
				m := model[cur]
				if t.Type != m.Kind || t.Value != m.Text || e != m.Err || tl.From() != m.From || tl.To() != m.To {
					res = fail(fmt.Sprintf("op %d: observers give (%v %q err=%q %d %d), fresh scan has (%v %q err=%q %d %d) at token %d", i, t.Type, t.Value, e, tl.From(), tl.To(), m.Kind, m.Text, m.Err, m.From, m.To, cur))
					return
				}
			}
			res.Add("tlexer_ops", 1)
		}
	}()
	if pan != nil {
		return fail(fmt.Sprintf("panic: %v", pan))
	}
	if res.Verdict == core.Violated {
		return res
	}
	res.Verdict = core.Held
	res.Hash = core.HashString(input + strings.Join(ops, ""))
	res.Nontrivial = res.Count["rollbacks"] > 0 && len(model) > 3
	res.Sample = map[string]any{"family": "tlexer", "text": input, "ops": strings.Join(ops, "")}
	return res
}

// ---- combinators vs recogniser ------------------------------------------------

type strWrap struct{}

func (strWrap) Wrap(t c.Token) c.Node { return t.(token.Type).Value }

// mres is the model's result.
type mres struct {
	nodes []string
	pos   int
	ok    bool
}

type mparser func(toks []lexEntry, pos int) mres

type pair struct {
	real     c.Parser
	model    mparser
	desc     string
	nonempty bool // consumes at least one token whenever it succeeds
}

var c13Alphabet = []string{"a", "b", "cc", "+"}

func pAccept(sym string) pair {
	return pair{
		real: c.Accept(func(t c.Token) bool { return t.(token.Type).Value == sym }, sym, strWrap{}),
		model: func(toks []lexEntry, pos int) mres {
			if pos < len(toks) && toks[pos].Err == "" && toks[pos].Text == sym {
				return mres{[]string{sym}, pos + 1, true}
			}
			return mres{}
		},
		desc: "Accept(" + sym + ")", nonempty: true,
	}
}

func pOk() pair {
	return pair{real: c.Ok(), model: func(_ []lexEntry, pos int) mres { return mres{nil, pos, true} }, desc: "Ok"}
}

func mAnd(a, b mparser) mparser {
	return func(toks []lexEntry, pos int) mres {
		ra := a(toks, pos)
		if !ra.ok {
			return mres{}
		}
		rb := b(toks, ra.pos)
		if !rb.ok {
			return mres{}
		}
		return mres{append(append([]string{}, ra.nodes...), rb.nodes...), rb.pos, true}
	}
}

func joinF(tag string) (func([]c.Node) []c.Node, func([]string) []string) {
	return func(n []c.Node) []c.Node {
			s := tag + "<"
			for _, x := range n {
				s += x.(string) + ","
			}
			return []c.Node{s + ">"}
		}, func(n []string) []string {
			return []string{tag + "<" + strings.Join(n, ",") + func() string {
				if len(n) > 0 {
					return ","
				}
				return ""
			}() + ">"}
		}
}

// genPair builds a random parser expression and its model.
func genPair(r *core.Rng, depth int, needNonempty bool) pair {
	if depth <= 0 {
		if needNonempty || r.Chance(4, 5) {
			return pAccept(c13Alphabet[r.Intn(len(c13Alphabet))])
		}
		return pOk()
	}
	for {
		switch r.Intn(12) {
		case 0:
			return pAccept(c13Alphabet[r.Intn(len(c13Alphabet))])
		case 1: // And
			a := genPair(r, depth-1, false)
			b := genPair(r, depth-1, needNonempty && !a.nonempty)
			return pair{c.And(a.real, b.real), mAnd(a.model, b.model), "And(" + a.desc + "," + b.desc + ")", a.nonempty || b.nonempty}
		case 2: // Seq of 3
			a := genPair(r, depth-1, needNonempty)
			b := genPair(r, depth-1, false)
			d := genPair(r, depth-1, false)
			return pair{c.Seq(a.real, b.real, d.real), mAnd(mAnd(a.model, b.model), d.model), "Seq(" + a.desc + "," + b.desc + "," + d.desc + ")", true && (a.nonempty || b.nonempty || d.nonempty)}
		case 3: // OneOf
			n := r.Range(1, 3)
			var ps []pair
			for i := 0; i < n; i++ {
				ps = append(ps, genPair(r, depth-1, needNonempty))
			}
			reals := make([]c.Parser, n)
			descs := make([]string, n)
			ne := true
			for i, p := range ps {
				reals[i], descs[i] = p.real, p.desc
				ne = ne && p.nonempty
			}
			return pair{c.OneOf(reals...), func(toks []lexEntry, pos int) mres {
				for _, p := range ps {
					if x := p.model(toks, pos); x.ok {
						return x
					}
				}
				return mres{}
			}, "OneOf(" + strings.Join(descs, ",") + ")", ne}
		case 4: // Choose, last gate Ok
			n := r.Range(1, 3)
			type cond struct{ g, s pair }
			var cs []cond
			for i := 0; i < n; i++ {
				g := genPair(r, depth-1, false)
				if i == n-1 {
					g = pOk()
				}
				s := genPair(r, depth-1, needNonempty && !g.nonempty)
				cs = append(cs, cond{g, s})
			}
			reals := make([]c.Conditional, n)
			descs := make([]string, n)
			ne := true
			for i, x := range cs {
				reals[i] = c.Conditional{Gate: x.g.real, OnSuccess: x.s.real}
				descs[i] = x.g.desc + "=>" + x.s.desc
				ne = ne && (x.g.nonempty || x.s.nonempty)
			}
			return pair{c.Choose(reals...), func(toks []lexEntry, pos int) mres {
				for _, x := range cs {
					g := x.g.model(toks, pos)
					if !g.ok {
						continue
					}
					s := x.s.model(toks, g.pos)
					if !s.ok {
						return mres{} // committed
					}
					return mres{append(append([]string{}, g.nodes...), s.nodes...), s.pos, true}
				}
				return mres{}
			}, "Choose(" + strings.Join(descs, ";") + ")", ne}
		case 5: // Any
			if needNonempty {
				continue
			}
			g := genPair(r, depth-1, false)
			s := genPair(r, depth-1, !g.nonempty)
			return pair{c.Any(c.Conditional{Gate: g.real, OnSuccess: s.real}), func(toks []lexEntry, pos int) mres {
				var nodes []string
				for {
					x := g.model(toks, pos)
					if !x.ok {
						return mres{nodes, pos, true}
					}
					y := s.model(toks, x.pos)
					if !y.ok {
						return mres{}
					}
					nodes = append(append(nodes, x.nodes...), y.nodes...)
					pos = y.pos
				}
			}, "Any(" + g.desc + "=>" + s.desc + ")", false}
		case 6: // SeparatedBy
			if needNonempty {
				continue
			}
			a := genPair(r, depth-1, true)
			b := genPair(r, depth-1, false)
			return pair{c.SeparatedBy(a.real, b.real), func(toks []lexEntry, pos int) mres {
				x := a.model(toks, pos)
				if !x.ok {
					return mres{nil, pos, true}
				}
				nodes := append([]string{}, x.nodes...)
				pos = x.pos
				for {
					y := b.model(toks, pos)
					if !y.ok {
						return mres{nodes, pos, true}
					}
					z := a.model(toks, y.pos)
					if !z.ok {
						return mres{nodes, pos, true}
					}
					nodes = append(nodes, z.nodes...)
					pos = z.pos
				}
			}, "SeparatedBy(" + a.desc + "," + b.desc + ")", false}
		case 7: // SurroundedBy
			a := genPair(r, depth-1, false)
			b := genPair(r, depth-1, false)
			d := genPair(r, depth-1, needNonempty && !a.nonempty && !b.nonempty)
			return pair{c.SurroundedBy(a.real, b.real, d.real), func(toks []lexEntry, pos int) mres {
				x := a.model(toks, pos)
				if !x.ok {
					return mres{}
				}
				y := b.model(toks, x.pos)
				if !y.ok {
					return mres{}
				}
				z := d.model(toks, y.pos)
				if !z.ok {
					return mres{}
				}
				return mres{append([]string{}, y.nodes...), z.pos, true}
			}, "SurroundedBy(" + a.desc + "," + b.desc + "," + d.desc + ")", a.nonempty || b.nonempty || d.nonempty}
		case 8: // Assert (optionally of Not)
			if needNonempty {
				continue
			}
			p := genPair(r, depth-1, false)
			if r.Chance(1, 3) {
				return pair{c.Assert(c.Not(p.real)), func(toks []lexEntry, pos int) mres {
					if p.model(toks, pos).ok {
						return mres{}
					}
					return mres{nil, pos, true}
				}, "Assert(Not(" + p.desc + "))", false}
			}
			return pair{c.Assert(p.real), func(toks []lexEntry, pos int) mres {
				if !p.model(toks, pos).ok {
					return mres{}
				}
				return mres{nil, pos, true}
			}, "Assert(" + p.desc + ")", false}
		case 9: // Drop
			p := genPair(r, depth-1, needNonempty)
			return pair{c.Drop(p.real), func(toks []lexEntry, pos int) mres {
				x := p.model(toks, pos)
				x.nodes = nil
				return x
			}, "Drop(" + p.desc + ")", p.nonempty}
		case 10: // Fmap
			p := genPair(r, depth-1, needNonempty)
			tag := fmt.Sprintf("f%d", r.Intn(100))
			fr, fm := joinF(tag)
			return pair{c.Fmap(fr, p.real), func(toks []lexEntry, pos int) mres {
				x := p.model(toks, pos)
				if x.ok {
					x.nodes = fm(x.nodes)
				}
				return x
			}, "Fmap(" + tag + "," + p.desc + ")", p.nonempty}
		default:
			if !needNonempty {
				return pOk()
			}
		}
	}
}

func c13Comb(ctx *core.Ctx, idx int) core.Result {
	r := core.CaseRng(ctx.Seed, "C13/comb", idx)
	var res core.Result
	p := genPair(r, r.Range(1, 4), false)
	// token string over the alphabet
	var sb strings.Builder
	n := r.Range(0, 12)
	long := r.Chance(1, 25)
	if long {
		// a long token stream and a start far into it: buffer positions beyond any small constant
		n = r.Range(280, 700)
	}
	for i := 0; i < n; i++ {
		if r.Chance(1, 40) && !long {
			sb.WriteString("@") // lexer error token
		} else {
			sb.WriteString(c13Alphabet[r.Intn(len(c13Alphabet))])
		}
		sb.WriteString([]string{" ", "  ", " ; x\n", "\n", " "}[r.Intn(5)])
	}
	input := sb.String()
	toks := freshScan(input)
	in := map[string]any{"parser": p.desc, "text": input}
	fail := func(d string) core.Result {
		res.Verdict = core.Violated
		res.Viol = &core.Violation{Monitor: "combinator-recogniser", Detail: d, Input: in}
		return res
	}
	// start somewhere inside the stream so "position where it was" is not always 0
	start := 0
	if len(toks) > 2 {
		start = r.Intn(len(toks) / 2)
	}
	if long && len(toks) > 280 {
		start = r.Range(250, len(toks)-12)
		res.Add("long_stream_parses", 1)
	}
	tl := lexer.NewTLexer(input)
	for i := 0; i < start; i++ {
		tl.Next()
	}
	var nodes []c.Node
	var perr *c.Error
	var pan any
	func() {
		defer func() { pan = recover() }()
		nodes, perr = p.real(&tl)
	}()
	if pan != nil {
		return fail(fmt.Sprintf("panic: %v", pan))
	}
	want := p.model(toks, start)
	if tl.VerifSnapshotDepth() != 0 {
		return fail(fmt.Sprintf("snapshot stack depth %d after the parser returned", tl.VerifSnapshotDepth()))
	}
	if (perr == nil) != want.ok {
		return fail(fmt.Sprintf("parser accepted=%v, ordered-choice recogniser accepted=%v (start token %d)", perr == nil, want.ok, start))
	}
	res.Tag("comb:" + p.desc[:strings.IndexAny(p.desc+"(", "(")])
	if want.ok {
		var got []string
		for _, n := range nodes {
			got = append(got, n.(string))
		}
		if strings.Join(got, "|") != strings.Join(want.nodes, "|") {
			return fail(fmt.Sprintf("results %q, recogniser %q", got, want.nodes))
		}
		// end position through the public observers (the buffer index itself is an implementation detail)
		if want.pos >= 1 && tl.From() != toks[want.pos-1].From {
			return fail(fmt.Sprintf("parser ended on the token at byte %d, recogniser at token %d (byte %d)", tl.From(), want.pos-1, toks[want.pos-1].From))
		}
		if want.pos < len(toks) {
			if !tl.Next() {
				return fail("no token after the parse where the stream has one")
			}
			t := tl.Token().(token.Type)
			if t.Value != toks[want.pos].Text || t.Type != toks[want.pos].Kind {
				return fail(fmt.Sprintf("next token %q, fresh scan has %q", t.Value, toks[want.pos].Text))
			}
		}
		res.Add("accepted_parses", 1)
		if want.pos > start {
			res.Add("consuming_parses", 1)
		}
	} else {
		res.Add("rejected_parses", 1)
	}
	res.Verdict = core.Held
	res.Hash = core.HashString(p.desc + "\x00" + input)
	res.Nontrivial = strings.Count(p.desc, "(") >= 3 && len(toks) > 3
	res.Sample = map[string]any{"family": "comb", "parser": p.desc, "text": input, "accepted": want.ok, "end": want.pos}
	return res
}

func init() {
	register(&core.Property{
		ID:          "C13",
		Rule:        "(1) operation histories Next/Snapshot/Rollback/Commit (5..120 ops, and 500..3000 ops over streams of 300..900 tokens; rollback/commit only with an open snapshot) on the real TLexer over token-soup and corpus texts, every observer compared with a fresh plain scan after each op; (2) random parser expressions (depth 1..4) over Accept/Ok/And/Seq/OneOf/Choose/Any/SeparatedBy/SurroundedBy/Assert/Not/Drop/Fmap on a 4-symbol alphabet (streams of 0..12 tokens, one in 25 of 280..700 tokens with the start beyond token 250), run on the real TLexer from a random start token against an ordered-choice recogniser: accept/reject, result nodes, end position, following token, snapshot-stack balance. non-trivial = history with a rollback over >3 tokens / expression with >= 3 combinators on >3 tokens; distinct by (text, ops) / (expression, text).",
		Assumptions: []string{"the grammar's own side conditions are respected by the generator: Choose ends in an Ok gate, Not only under Assert, Any/SeparatedBy iterations consume at least one token", "committed choice (a failing OnSuccess fails the whole Choose/Any) is taken from the package documentation as the recogniser's semantics"},
		Families: []core.Family{
			{Name: "tlexer", Count: countFn(150000, 4000000), Run: c13TLexer},
			{Name: "comb", Count: countFn(600000, 15000000), Run: c13Comb},
		},
		Floors: []core.Floor{{Key: "tlexer_ops", Quick: 1000000, Thor: 100000000}, {Key: "rollbacks", Quick: 100000, Thor: 10000000}, {Key: "accepted_parses", Quick: 30000, Thor: 3000000}, {Key: "consuming_parses", Quick: 10000, Thor: 1000000}, {Key: "rejected_parses", Quick: 20000, Thor: 2000000}, {Key: "long_stream_parses", Quick: 10000, Thor: 300000}, {Key: "tag:comb:", Quick: 10, Thor: 10}},
	})
}
