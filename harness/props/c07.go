package props

import (
	"fmt"

	"verif/ast"
	"verif/calcrun"
	"verif/core"
	"verif/gen"
)

// C07 — parsing follows the documented grammar: trees round-trip through
// source text. The printer in harness/ast is the independent statement of the
// grammar (minimal parentheses, so a precedence/associativity change moves the
// tree); the oracle is structural equality of the parser's result with the
// tree that was printed, for the canonical layout and 4 layout variants.

func c07Small() []ast.Node {
	var ts []ast.Node
	a, b, c := ast.Name{N: "a"}, ast.Name{N: "b"}, ast.Name{N: "c"}
	one := ast.IntLit{V: 1}
	for _, p := range ast.BinaryOps {
		for _, q := range ast.BinaryOps {
			ts = append(ts, ast.Binary{Op: p, L: ast.Binary{Op: q, L: a, R: b}, R: c})
			ts = append(ts, ast.Binary{Op: p, L: a, R: ast.Binary{Op: q, L: b, R: c}})
		}
		for _, u := range ast.UnaryOps {
			ts = append(ts, ast.Unary{Op: u, X: ast.Binary{Op: p, L: a, R: b}})
			ts = append(ts, ast.Binary{Op: p, L: ast.Unary{Op: u, X: a}, R: b})
			ts = append(ts, ast.Binary{Op: p, L: a, R: ast.Unary{Op: u, X: b}})
		}
		ts = append(ts, ast.Index{X: ast.Binary{Op: p, L: a, R: b}, I: c})
		ts = append(ts, ast.Binary{Op: p, L: a, R: ast.Index{X: b, I: c}})
		ts = append(ts, ast.Binary{Op: p, L: ast.Index{X: a, I: b}, R: c})
		ts = append(ts, ast.Slice{X: ast.Binary{Op: p, L: a, R: b}, I: c, J: one})
		ts = append(ts, ast.Index{X: a, I: ast.Binary{Op: p, L: b, R: c}})
		ts = append(ts, ast.Slice{X: a, I: ast.Binary{Op: p, L: b, R: c}, J: ast.Binary{Op: p, L: c, R: b}})
		ts = append(ts, ast.Binary{Op: p, L: ast.FuncLit{Params: []string{"x"}, Body: a}, R: b})
		ts = append(ts, ast.Binary{Op: p, L: a, R: ast.FuncLit{Params: nil, Body: b}})
	}
	for _, u := range ast.UnaryOps {
		for _, v := range ast.UnaryOps {
			ts = append(ts, ast.Unary{Op: u, X: ast.Unary{Op: v, X: a}})
		}
		ts = append(ts, ast.Unary{Op: u, X: ast.Index{X: a, I: b}})
		ts = append(ts, ast.Index{X: ast.Unary{Op: u, X: a}, I: b})
		ts = append(ts, ast.Unary{Op: u, X: ast.Call{Fn: "f", Args: []ast.Node{a}}})
		ts = append(ts, ast.Unary{Op: u, X: ast.ArrayLit{Elems: []ast.Node{a}}})
	}
	ts = append(ts, ast.Index{X: ast.Index{X: a, I: b}, I: c}, ast.Index{X: ast.FuncLit{Body: a}, I: b}, ast.Index{X: ast.ArrayLit{Elems: []ast.Node{a, b}}, I: one},
		ast.Index{X: ast.StrLit{V: "s"}, I: one}, ast.Index{X: ast.Call{Fn: "f"}, I: one}, ast.Slice{X: ast.Slice{X: a, I: b, J: c}, I: one, J: one})
	// every statement form as the body of every body position
	forms := []ast.Node{
		a, ast.Unary{Op: "-", X: one}, ast.ArrayLit{Elems: []ast.Node{one}}, ast.Binary{Op: "+", L: a, R: b}, ast.Call{Fn: "f", Args: []ast.Node{a}},
		ast.FuncLit{Params: []string{"x"}, Body: a}, ast.StrLit{V: "s"}, one,
		ast.Assign{Name: "x", Value: one}, ast.Assign{Name: "x", Value: ast.FuncLit{Body: ast.If{Cond: a, Then: one}}},
		ast.If{Cond: a, Then: one}, ast.If{Cond: a, Then: one, Else: b},
		ast.While{Cond: a, Body: one}, ast.While{Cond: a, Body: ast.If{Cond: b, Then: one}},
		ast.For{Vars: []string{"i"}, Iters: []ast.Node{ast.Call{Fn: "g"}}, Body: ast.Name{N: "i"}},
		ast.For{Vars: []string{"i", "j"}, Iters: []ast.Node{ast.Call{Fn: "g"}, a}, Body: ast.If{Cond: b, Then: one}},
		ast.Return{X: a}, ast.Yield{X: a}, ast.Return{X: ast.FuncLit{Body: ast.If{Cond: a, Then: one}}},
		ast.Block{Stmts: []ast.Node{a, b}}, ast.Block{Stmts: []ast.Node{ast.If{Cond: a, Then: one}, ast.Assign{Name: "x", Value: b}, ast.Return{X: c}}},
	}
	for _, f := range forms {
		ts = append(ts, f)
		ts = append(ts, ast.If{Cond: c, Then: f})
		ts = append(ts, ast.If{Cond: c, Then: f, Else: one})
		ts = append(ts, ast.If{Cond: c, Then: one, Else: f})
		ts = append(ts, ast.While{Cond: c, Body: f})
		ts = append(ts, ast.For{Vars: []string{"v"}, Iters: []ast.Node{c}, Body: f})
		ts = append(ts, ast.FuncLit{Params: []string{"p"}, Body: f})
		ts = append(ts, ast.Assign{Name: "h", Value: ast.FuncLit{Body: f}})
		ts = append(ts, ast.Call{Fn: "k", Args: []ast.Node{ast.FuncLit{Body: f}, one}})
		ts = append(ts, ast.ArrayLit{Elems: []ast.Node{ast.FuncLit{Body: f}, one}})
		if _, isBlock := f.(ast.Block); !isBlock {
			ts = append(ts, ast.Block{Stmts: []ast.Node{f, f}})
			ts = append(ts, ast.Block{Stmts: []ast.Node{one, f, a}})
		}
	}
	return ts
}

func c07Check(r *core.Rng, t ast.Node, family string) core.Result {
	var res core.Result
	want := ast.Sexp(t)
	res.Hash = core.HashString(want)
	layouts := []*ast.Layout{nil, gen.RandLayout(r), gen.RandLayout(r), gen.RandLayout(r), gen.RandLayout(r)}
	var canon string
	for li, l := range layouts {
		src := ast.Print(t, l)
		if r.Chance(1, 2) {
			src += "\n"
		}
		if li == 0 {
			canon = src
		}
		fail := func(mon, d string) core.Result {
			res.Verdict = core.Violated
			res.Viol = &core.Violation{Monitor: mon, Detail: d, Input: map[string]any{"tree": want, "layout": li, "text": src}}
			return res
		}
		nodes, perr, pan, hang, _, _ := calcrun.Parse(src)
		if pan != nil || hang != "" {
			res.Verdict = core.Inconclusive
			res.Reason = "front end aborted (decided by C06)"
			return res
		}
		if perr != nil {
			return fail("roundtrip", fmt.Sprintf("text written by the documented rules is rejected: %s [%d,%d)", perr.Msg, perr.From, perr.To))
		}
		if len(nodes) != 1 {
			return fail("roundtrip", fmt.Sprintf("parsed to %d statements", len(nodes)))
		}
		got := ast.Sexp(calcrun.FromNode(nodes[0]))
		if got != want {
			return fail("roundtrip", fmt.Sprintf("parser built %s", got))
		}
		res.Add("texts_parsed", 1)
		if li > 0 {
			res.Add("layout_variants", 1)
		}
	}
	ast.Walk(t, func(n ast.Node) bool {
		res.Tag(fmt.Sprintf("node:%T", n))
		return true
	})
	res.Verdict = core.Held
	res.Nontrivial = ast.Size(t) >= 3
	res.Sample = map[string]any{"family": family, "tree": want, "text": canon}
	return res
}

func init() {
	small := c07Small()
	register(&core.Property{
		ID:          "C07",
		Rule:        "trees: (a) an enumerated set of " + fmt.Sprint(len(small)) + " small trees — every ordered pair of the 17 binary operator spellings as parent/child on each side, every unary over/under every binary and unary, index/slice over and under each operator, function literals as operands, and 21 statement forms in every body position (if/else arms, while, for, function body, function literal in assignment/argument/array element, block member) — enumerated completely in both tiers; (b) seeded random syntactic trees to depth 8 (ill-typed allowed). Each tree is printed in the canonical layout and 4 random layouts (redundant parentheses, compact/random blanks and tabs, blank lines in blocks and arrays, newlines after '[' and ',', comments, braced single statements) and every text must parse back to the same tree. non-trivial = at least 3 nodes; distinct by tree.",
		Assumptions: []string{"the printer (harness/ast/print.go) is the statement of the documented grammar; trees the grammar cannot denote are not generated (single-statement blocks, blocks directly inside blocks, negative literals, keyword names, statements on an assignment's right-hand side)", "strings contain no backslash; floats are dyadic rationals printed in plain decimal"},
		Families: []core.Family{
			{Name: "small", Count: func(string) int { return len(small) }, Run: func(ctx *core.Ctx, idx int) core.Result {
				return c07Check(core.CaseRng(ctx.Seed, "C07/small", idx), small[idx], "small")
			}},
			{Name: "random", Count: countFn(60000, 1500000), Run: func(ctx *core.Ctx, idx int) core.Result {
				r := core.CaseRng(ctx.Seed, "C07/random", idx)
				return c07Check(r, gen.SynBody(r, r.Range(1, 8)), "random")
			}},
		},
		Floors: []core.Floor{{Key: "texts_parsed", Quick: 100000, Thor: 5000000}, {Key: "layout_variants", Quick: 80000, Thor: 4000000}, {Key: "tag:node:", Quick: 19, Thor: 19}, {Key: "nontrivial", Quick: 15000, Thor: 900000}},
		Extra: func(a *core.Agg, cov map[string]any) {
			cov["exhaustive_subspaces"] = "the small family is enumerated completely in both tiers"
		},
	})
}
