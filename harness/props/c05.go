package props

import (
	"fmt"
	"strings"
	"time"

	"verif/ast"
	"verif/calcrun"
	"verif/core"
	"verif/gen"
	"verif/rs"
)

// C05 — no accepted program can crash the interpreter. Universal no-abort
// monitor over hostile (ill-typed, meaningless, adversarial) but parseable
// programs, in both compile modes: every statement must end with a value or a
// documented runtime error; panics, Go fatals (worker death), undocumented
// errors and logical non-progress where the reference terminates are
// violations.

// hostileRun executes the statements on the real pipeline.
func hostileRun(prop string, stmts []ast.Node, doOut bool, family string, extra string) core.Result {
	var res core.Result
	text := sessionText(stmts)
	res.Hash = core.Mix(core.HashString(strings.Join(text, "\x00")) ^ core.HashString(fmt.Sprint(doOut)))
	in := map[string]any{"session": text, "repl_mode": doOut, "family": family}
	if extra != "" {
		in["note"] = extra
	}
	for _, st := range stmts {
		if d := ast.Denotable(st); d != "" {
			res.Verdict, res.Reason = core.Inconclusive, "generator produced an undenotable tree: "+d
			return res
		}
	}
	// the reference runs first: it is total on ill-typed programs (they end in
	// an error class or in "ambiguous") and its accountant drops programs
	// that build huge values before they reach the VM
	ref := rs.New()
	ref.Budget = 300000
	ref.SetStdin("\nline two\n\r\nx\n")
	refTerminates := make([]bool, len(stmts))
	refSteps := make([]int, len(stmts))
	for i, st := range stmts {
		w := ref.Exec(st)
		refSteps[i] = w.Stats.Steps
		if w.TooBig {
			res.Verdict, res.Reason = core.Dropped, "too-big"
			return res
		}
		refTerminates[i] = !w.Budget && w.Ambiguous == ""
		if w.Budget || w.Ambiguous != "" {
			// the reference state may now differ from calc's: later statements have no reference verdict
			for j := i + 1; j < len(stmts); j++ {
				refTerminates[j] = false
			}
			break
		}
	}
	calcrun.SetStdin("\nline two\n\r\nx\n")
	ses := calcrun.NewSession()
	ses.StepLimit = 200000
	diverged := false
	for i, src := range text {
		// the step limit follows the reference's own effort (the VM takes a handful of instructions per
		// evaluation step of the reference); a fixed limit called a 203 000-step pipeline a hang
		ses.StepLimit = 200000
		if i < len(refSteps) && refTerminates[i] {
			ses.StepLimit = 200*refSteps[i] + 200000
		}
		obs := ses.Exec(src, doOut)
		res.Add("statements_executed", len(obs))
		for _, o := range obs {
			fail := func(mon, d string) core.Result {
				res.Verdict = core.Violated
				res.Viol = &core.Violation{Monitor: mon, Detail: fmt.Sprintf("statement %d %q: %s", i, trunc(src, 300), d), Input: in}
				info := &kfInfo{Stmts: stmts}
				if o.Panic != nil {
					info.Outcome = &diffOutcome{Panic: o.Panic}
				}
				if ids := core.KF().Attribute(prop, res.Viol, info); len(ids) > 0 {
					res.Verdict, res.KF = core.Known, ids
				}
				return res
			}
			switch {
			case o.Parse != nil:
				return fail("no-abort", "text written by the documented grammar was rejected: "+o.Parse.Msg)
			case o.Hang != "":
				return fail("no-abort", "front end did not terminate: "+o.Hang)
			case o.Panic != nil:
				stage := "running"
				if !o.Compiled {
					stage = "compiling"
				}
				return fail("no-abort", fmt.Sprintf("interpreter panicked while %s: %s (at %s, opcode %s)", stage, o.Panic.Msg, o.Panic.Site, o.Panic.Op))
			case o.StepLimit:
				if refTerminates[i] {
					return fail("no-abort", "VM does not finish a statement the reference evaluates in a few steps")
				}
				diverged = true
			case strings.HasPrefix(o.Err, "other:"):
				return fail("documented-errors", "undocumented runtime error "+o.Err)
			}
			if o.Err != "" {
				res.Tag("err:" + o.Err)
				res.Add("runtime_errors", 1)
			} else if !o.StepLimit {
				res.Add("values", 1)
			}
			res.SetMax("max_vm_steps", o.Steps)
		}
		if diverged || ses.Dead {
			break
		}
	}
	for _, s := range calcrun.Shapes() {
		res.Tag("shape:" + s)
	}
	if diverged {
		res.Verdict, res.Reason = core.Inconclusive, "diverged (VM step limit, no reference verdict)"
		return res
	}
	res.Verdict = core.Held
	res.Nontrivial = res.Count["statements_executed"] > 0
	res.Sample = in
	return res
}

// hostileRaw runs an accepted source text as it is (no reference verdict): only aborts are looked for.
func hostileRaw(src string, doOut bool, why string) core.Result {
	var res core.Result
	res.Hash = core.HashString(src)
	in := map[string]any{"text": src, "mode": map[bool]string{true: "repl", false: "script"}[doOut], "note": "accepted although outside the documented grammar: " + why}
	calcrun.SetStdin("line one\n")
	ses := calcrun.NewSession()
	ses.StepLimit = 200000
	for _, o := range ses.Exec(src, doOut) {
		if o.Panic != nil || o.Hang != "" {
			d := o.Hang
			if o.Panic != nil {
				d = "interpreter panicked: " + o.Panic.Msg + " (at " + o.Panic.Site + ")"
			}
			res.Verdict = core.Violated
			res.Viol = &core.Violation{Monitor: "no-abort", Detail: fmt.Sprintf("%q: %s", trunc(src, 200), d), Input: in}
			return res
		}
		if o.StepLimit {
			return core.Result{Verdict: core.Inconclusive, Reason: "diverged (VM step limit, no reference verdict)"}
		}
	}
	res.Add("statements_executed", 1)
	res.Verdict = core.Held
	res.Nontrivial = true
	res.Sample = in
	return res
}

// hostile values for the operator x position matrix
var hostileVals = []string{
	"nosuch", "write", "0", "1", "-1", "63", "64", "9223372036854775807", "-9223372036854775807 - 1", "0.0", "-0.5", "1.5", "100000000000000000000.0",
	"1.0 / 0.0", "0.0 / 0.0", "true", "false", "\"\"", "\"ab\"", "\"é\"", "[]", "[1, 2]", "[[1], \"a\", true]", "[nosuch]", "(x) -> x", "() -> nosuch",
}

func hostileMatrix(idx int) (string, bool) {
	nv := len(hostileVals)
	a := hostileVals[idx%nv]
	b := hostileVals[(idx/nv)%nv]
	form := idx / (nv * nv)
	bin := ast.BinaryOps
	switch {
	case form < len(bin):
		return fmt.Sprintf("(%s) %s (%s)", a, bin[form], b), true
	}
	form -= len(bin)
	forms := []string{
		"if %s 1 else 2", "while %s 1", "{\n k = 0\n while %s {\n k = k + 1\n if k > 3 return k\n }\n}", "(%[1]s)[%[2]s]", "(%[1]s)[%[2]s:%[2]s]", "(%[2]s)[0:%[1]s]",
		"{\n hv = %s\n hv(%s)\n}", "{\n hv = %s\n hv()\n}", "{\n hv = %s\n hv(%s, %s)\n}", "toa(%s)", "write(%s)", "aton(%s)", "fromto(%s, %s)", "for hv <- %s hv", "for hv <- elems(%s) hv", "for hv <- indices(%s) hv",
		"for hv, hw <- fromto(%s, %s), elems(%s) hv", "for hv <- fromto(0, 3) %s", "{\n hf = () -> yield %s\n for hv <- hf() hv\n}", "{\n hf = () -> return %s\n hf()\n}", "return %s", "yield %s",
		"-(%s)", "#(%s)", "!(%s)", "~(%s)", "hv = %s", "[%s, %s]", "{\n hf = (p, q) -> p\n hf(%s)\n}", "{\n hf = (p, q) -> q + p\n hf(%s, %s)\n}", "read(%s)", "{\n hf = (p) -> (q) -> p + q\n hg = hf(%s)\n hg(%s)\n}",
		"for hv, hw <- fromto(0, %s) hv", "{\n hf = () -> for hp, hq, hr <- elems(%s), fromto(0, 2) hp\n hf()\n}", // (not in the grammar: a parse error, unless the parser lets it through)
		"\"abcde\"[%s:%s]", "[1, 2, 3][%s:%s]", "{\n hs = [1, 2, 3, 4][1:3]\n hs[%s:%s]\n}",
	}
	if form >= len(forms) {
		return "", false
	}
	f := forms[form]
	n := strings.Count(f, "%s") + strings.Count(f, "%[")
	args := []any{a, b, a, b}
	if strings.Contains(f, "%[") {
		return fmt.Sprintf(f, a, b), true
	}
	return fmt.Sprintf(f, args[:n]...), true
}

var c05Keywords = []string{"if", "else", "while", "for", "return", "yield", "true", "false"}
var c05KeywordForms = []string{
	"%s = 1", "(%s) -> 1", "%s(1)", "for %s <- fromto(0, 2) 1", "for hv, %s <- fromto(0, 2), fromto(0, 2) hv", "{\n hf = (p, %s) -> p\n hf(1, 2)\n}",
	"%s", "[%s]", "hv = %s", "%s + 1", "{\n hf = () -> %s\n hf()\n}", "{\n %s = 2\n %s\n}", "hf = (%s) -> %s", "%s[0]", "#%s", "for hv <- %s hv",
}

// c05Text: a text that the parser accepts must run without aborting the interpreter, whether the harness's own
// syntax tree can express it or not.
func c05Text(src string, repl bool, fam string) core.Result {
	nodes, perr, pan, hang, _, _ := calcrun.Parse(src)
	if perr != nil || pan != nil || hang != "" || len(nodes) != 1 {
		return core.Result{Verdict: core.Dropped, Reason: fam + " text not accepted by the parser"}
	}
	n0 := calcrun.FromNode(nodes[0])
	if d := ast.Denotable(n0); d != "" {
		// the parser accepted a text the harness's syntax tree cannot even express (it is outside the
		// documented grammar): the accepted text itself must still not abort the interpreter
		return hostileRaw(src, repl, d)
	}
	return hostileRun("C05", []ast.Node{n0}, repl, fam, "")
}

func hostileMatrixCount() int {
	nv := len(hostileVals)
	n := 0
	for {
		if _, ok := hostileMatrix(n * nv * nv); !ok {
			return n * nv * nv
		}
		n++
	}
}

func init() {
	register(&core.Property{
		ID:          "C05",
		Rule:        "programs: (1) grammar-random, ill-typed trees (every node kind in every operand and statement position, huge and boundary constants, builtin names as variables) in sessions of 1..5 statements, (2) an enumerated matrix of " + fmt.Sprint(len(hostileVals)) + " hostile values (undefined name, function, boundary ints, infinities/NaN, bools, strings, nested arrays, closures) in every pair x all 17 binary operators and in 37 statement/builtin positions (condition, index, slice bound, callee, argument count, iterator, yield/return operand, unary operand ...), (2b) every reserved word in 16 name positions, (3) token-level mutations of corpus programs that still parse, (4) the typed sessions of C01 with planted faults; each in REPL and script compile mode. non-trivial = at least one statement executed to a value or a runtime error; distinct by session text and mode.",
		Assumptions: []string{"programs that hit the VM step limit without a reference verdict (ill-typed infinite loops) are counted inconclusive/diverged, programs whose values outgrow 10^6 elements are dropped before reaching the VM, a worker stopped by the heap guard is inconclusive/oom", "exit() is not called"},
		Families: []core.Family{
			{Name: "matrix", Count: func(string) int { return hostileMatrixCount() * 2 }, Run: func(_ *core.Ctx, idx int) core.Result {
				src, _ := hostileMatrix(idx / 2)
				return c05Text(src, idx%2 == 0, "matrix")
			}},
			{Name: "keywords", Count: func(string) int { return len(c05Keywords) * len(c05KeywordForms) * 2 }, Run: func(_ *core.Ctx, idx int) core.Result {
				// every reserved word in every position where a name can stand: whatever the parser lets through must run
				k := c05Keywords[(idx/2)%len(c05Keywords)]
				f := c05KeywordForms[(idx/2)/len(c05Keywords)]
				return c05Text(strings.ReplaceAll(f, "%s", k), idx%2 == 0, "keywords")
			}},
			{Name: "random", Count: countFn(50000, 2000000), Run: func(ctx *core.Ctx, idx int) core.Result {
				r := core.CaseRng(ctx.Seed, "C05/random", idx)
				n := r.Range(1, 5)
				stmts := make([]ast.Node, n)
				for i := range stmts {
					stmts[i] = gen.SynBody(r, r.Range(1, 4))
				}
				return hostileRun("C05", stmts, idx%2 == 0, "random", "")
			}},
			{Name: "mutation", Count: countFn(20000, 800000), Run: func(ctx *core.Ctx, idx int) core.Result {
				r := core.CaseRng(ctx.Seed, "C05/mutation", idx)
				cs := corpusSessions()
				c := cs[r.Intn(len(cs))]
				if len(c.Stmts) == 0 {
					return core.Result{Verdict: core.Dropped, Reason: "empty corpus session"}
				}
				var stmts []ast.Node
				for _, st := range c.Stmts {
					src := ast.Print(st, nil)
					if r.Chance(1, 2) {
						src = mutateTokens(r, src)
					}
					nodes, perr, pan, hang, _, _ := calcrun.Parse(src)
					if perr != nil || pan != nil || hang != "" || len(nodes) != 1 {
						continue
					}
					stmts = append(stmts, calcrun.FromNode(nodes[0]))
					if len(stmts) >= 8 {
						break
					}
				}
				if len(stmts) == 0 {
					return core.Result{Verdict: core.Dropped, Reason: "no mutated statement parsed"}
				}
				return hostileRun("C05", stmts, idx%2 == 0, "mutation", c.Name)
			}},
			{Name: "pipes", Count: countFn(3000, 300000), Run: func(ctx *core.Ctx, idx int) core.Result {
				// generator pipelines with lambdas in iterator expressions, recycled contexts, early returns,
				// sometimes with a hostile value planted in a stage function
				r := core.CaseRng(ctx.Seed, "C05/pipes", idx)
				ps, _ := c02Pipes(r)
				pid := 0
				cons, _, _ := c02Consumer(r, ps, false, c02Pre(r, &pid))
				stmts := append(append([]ast.Node{}, pipeLibrary(false)...), cons...)
				if r.Chance(1, 4) {
					// a consumer with a very wide frame, after small loops of the same statement
					w := []int{130, 200, 257, 300}[r.Intn(4)]
					var ss []ast.Node
					small := ast.For{Vars: []string{"q"}, Iters: []ast.Node{ast.Call{Fn: "fromto", Args: []ast.Node{ast.IntLit{V: 0}, ast.IntLit{V: 2}}}}, Body: ast.Name{N: "q"}}
					for i := 0; i < w; i++ {
						ss = append(ss, ast.Assign{Name: wideName(i), Value: ast.IntLit{V: int64(i)}})
					}
					ss = append(ss, ast.Assign{Name: "acc", Value: ast.IntLit{V: 0}},
						ast.For{Vars: []string{"v"}, Iters: []ast.Node{ps[0].Expr()}, Body: ast.Assign{Name: "acc", Value: ast.Binary{Op: "+", L: ast.Name{N: "acc"}, R: ast.Binary{Op: "+", L: ast.Name{N: "v"}, R: ast.Name{N: wideName(w - 1)}}}}},
						ast.Name{N: "acc"})
					// the small loops run in a small frame (top level or a small function) of the same statement
					stmts = append(stmts, ast.Assign{Name: "vwide", Value: ast.FuncLit{Body: ast.Block{Stmts: ss}}})
					if r.Bool() {
						stmts = append(stmts, ast.Block{Stmts: []ast.Node{small, ast.Call{Fn: "vwide"}}})
					} else {
						stmts = append(stmts, ast.Assign{Name: "vsmall", Value: ast.FuncLit{Body: ast.Block{Stmts: []ast.Node{small, ast.IntLit{V: 0}}}}},
							ast.ArrayLit{Elems: []ast.Node{ast.Call{Fn: "vsmall"}, ast.Call{Fn: "vwide"}}})
					}
				}
				if r.Chance(1, 3) {
					if nodes, perr, _, _, _, _ := calcrun.Parse(hostileVals[r.Intn(len(hostileVals))]); perr == nil && len(nodes) == 1 {
						stmts = append(stmts, ast.For{Vars: []string{"hv"}, Iters: []ast.Node{ast.Call{Fn: "gmap", Args: []ast.Node{ast.IntLit{V: 900}, ast.FuncLit{Params: []string{"e"}, Body: ast.Binary{Op: "+", L: ast.Name{N: "e"}, R: calcrun.FromNode(nodes[0])}}, ast.FuncLit{Body: ps[0].Expr()}}}}, Body: ast.Name{N: "hv"}})
					}
				}
				return hostileRun("C05", stmts, idx%2 == 0, "pipes", "")
			}},
			{Name: "binary", Count: countFn(300, 6000), Run: c05Binary},
			{Name: "typed", Count: countFn(10000, 400000), Run: func(ctx *core.Ctx, idx int) core.Result {
				r := core.CaseRng(ctx.Seed, "C05/typed", idx)
				o := gen.DefaultOpts()
				o.MaxDepth = r.Range(1, 4)
				o.Faults = 2
				g := gen.New(r, o)
				return hostileRun("C05", g.Session(r.Range(2, 6)), idx%2 == 0, "typed", "")
			}},
			{Name: "params", Count: countFn(1200, 60000), Run: func(ctx *core.Ctx, idx int) core.Result { return dupParamCase("C05", ctx, idx) }},
		},
		Sanitize: []string{"matrix", "random", "typed"},
		Floors:   []core.Floor{{Key: "statements_executed", Quick: 60000, Thor: 5000000}, {Key: "runtime_errors", Quick: 30000, Thor: 2000000}, {Key: "values", Quick: 10000, Thor: 1000000}, {Key: "tag:err:", Quick: 6, Thor: 7}, {Key: "tag:shape:", Quick: 150, Thor: 200}, {Key: "binary_runs", Quick: 200, Thor: 4000}},
	})
	core.MaxInconclusivePct["C05"] = 15
}

// mutateTokens swaps, deletes or replaces tokens of a program text.
func mutateTokens(r *core.Rng, src string) string {
	toks := strings.Fields(src)
	if len(toks) == 0 {
		return src
	}
	repl := []string{"0", "1", "nosuch", "true", "\"s\"", "[]", "+", "-", "*", "/", "%", "==", "<", "&&", "#", "!", "~", "-1", "9223372036854775807", "1.5", "write", "x", "()", "->", "(", ")", "[", "]", ","}
	for k := r.Range(1, 3); k > 0; k-- {
		i := r.Intn(len(toks))
		switch r.Intn(4) {
		case 0:
			toks[i] = repl[r.Intn(len(repl))]
		case 1:
			toks = append(toks[:i], toks[i+1:]...)
			if len(toks) == 0 {
				return ""
			}
		case 2:
			j := r.Intn(len(toks))
			toks[i], toks[j] = toks[j], toks[i]
		default:
			toks = append(toks[:i], append([]string{repl[r.Intn(len(repl))]}, toks[i:]...)...)
		}
	}
	out := strings.Join(toks, " ")
	// the printer wrote newlines as separate tokens only inside braces; restore block structure
	out = strings.ReplaceAll(out, "{ ", "{\n")
	out = strings.ReplaceAll(out, " }", "\n}")
	return out
}

// c05Binary: hostile programs through the real cmd/calc in file mode: exit
// status 0 and no Go panic/fatal on stderr.
func c05Binary(ctx *core.Ctx, idx int) core.Result {
	r := core.CaseRng(ctx.Seed, "C05/binary", idx)
	var res core.Result
	bin := calcrun.CalcBinary()
	if bin == "" {
		return core.Result{Verdict: core.Inconclusive, Reason: "no calc binary (VERIF_CALC_BIN)"}
	}
	n := r.Range(1, 6)
	var script strings.Builder
	for i := 0; i < n; i++ {
		st := gen.SynBody(r, r.Range(1, 4))
		if ast.Denotable(st) != "" {
			continue
		}
		script.WriteString(ast.Print(st, nil))
		script.WriteString("\n")
	}
	res.Hash = core.HashString(script.String())
	path, rm := scratchFile("c05-*.calc", script.String())
	defer rm()
	p := calcrun.RunCalc(bin, []string{path}, []byte("l1\nl2\n"), "", 10*time.Second)
	if p.TimedOut {
		res.Verdict, res.Reason = core.Inconclusive, "diverged (wall-clock watchdog of the binary leg)"
		return res
	}
	if p.Exit != 0 || strings.Contains(p.Stderr, "panic:") || strings.Contains(p.Stderr, "fatal error") || strings.Contains(p.Stderr, "goroutine ") {
		res.Verdict = core.Violated
		res.Viol = &core.Violation{Monitor: "no-abort", Detail: fmt.Sprintf("cmd/calc exited %d on a script without exit(); stderr: %s", p.Exit, trunc(p.Stderr, 400)), Input: map[string]any{"script": script.String()}}
		return res
	}
	res.Add("binary_runs", 1)
	res.Verdict = core.Held
	res.Nontrivial = true
	res.Sample = map[string]any{"family": "binary", "script": script.String()}
	return res
}
