package props

import (
	"fmt"
	"os"
	"strings"
	"syscall"
	"time"

	"verif/calcrun"
	"verif/core"
)

// Process-level legs of C17: read() against a pipe, a regular file, a FIFO fed
// in small chunks, and a regular file whose k-th read(2) fails with EIO
// (injected by strace). The real binary runs a script of write(read()) calls.

func c17Proc(ctx *core.Ctx, idx int) core.Result {
	r := core.CaseRng(ctx.Seed, "C17/proc", idx)
	var res core.Result
	bin := calcrun.CalcBinary()
	if bin == "" {
		return core.Result{Verdict: core.Inconclusive, Reason: "no calc binary (VERIF_CALC_BIN)"}
	}
	nlines := r.Range(1, 9)
	var lines []string
	for i := 0; i < nlines; i++ {
		n := r.Range(0, 40)
		if r.Chance(1, 4) {
			n = r.Range(4090, 9000)
		}
		if r.Chance(1, 12) {
			n = r.Range(65000, 140000) // longer than any fixed line buffer
		}
		var sb strings.Builder
		for j := 0; j < n; j++ {
			sb.WriteByte("abcdefghij klmnop{}[]\";0123\r\t"[r.Intn(29)])
		}
		if r.Chance(1, 5) {
			sb.WriteByte('\r') // a line that ends in CR LF keeps its CR
		}
		if r.Chance(1, 8) {
			lines = append(lines, "\n") // an empty line
			continue
		}
		lines = append(lines, fmt.Sprintf("%d:", i)+sb.String()+"\n")
	}
	input := strings.Join(lines, "")
	k := r.Range(1, nlines+2)
	var script strings.Builder
	for i := 0; i < k; i++ {
		script.WriteString("write(read())\n")
	}
	script.WriteString("write(\"done\")\n")
	spath, rm := scratchFile("c17-*.calc", script.String())
	defer rm()
	kind := []string{"pipe", "file", "fifo", "eio"}[idx%4]
	res.Hash = core.HashString(kind + input + fmt.Sprint(k))
	in := map[string]any{"stdin_kind": kind, "lines": nlines, "reads": k}
	fail := func(d string) core.Result {
		res.Verdict = core.Violated
		res.Viol = &core.Violation{Monitor: "builtin-contract", Detail: d, Input: in}
		return res
	}
	var p calcrun.ProcResult
	switch kind {
	case "pipe":
		p = calcrun.RunCalc(bin, []string{spath}, []byte(input), "", 20*time.Second)
	case "file":
		ipath, rm2 := scratchFile("c17-stdin-*", input)
		defer rm2()
		p = calcrun.RunCalc(bin, []string{spath}, nil, ipath, 20*time.Second)
	case "fifo":
		fpath, rm2 := scratchFile("c17-fifo-*", "")
		rm2()
		if err := syscall.Mkfifo(fpath, 0o600); err != nil {
			return core.Result{Verdict: core.Inconclusive, Reason: "mkfifo: " + err.Error()}
		}
		defer os.Remove(fpath)
		go func() {
			f, err := os.OpenFile(fpath, os.O_WRONLY, 0)
			if err != nil {
				return
			}
			defer f.Close()
			b := []byte(input)
			for len(b) > 0 {
				n := 1 + int(core.Mix(uint64(len(b)))%700)
				if n > len(b) {
					n = len(b)
				}
				f.Write(b[:n])
				b = b[n:]
			}
		}()
		p = calcrun.RunCalc(bin, []string{spath}, nil, fpath, 20*time.Second)
	case "eio":
		ipath, rm2 := scratchFile("c17-stdin-*", input)
		defer rm2()
		when := r.Range(1, 3)
		in["eio_at_read_syscall"] = when
		p = calcrun.RunCalc(bin, []string{spath}, nil, ipath, 30*time.Second, "strace", "-f", "-o", "/dev/null", "-e", "trace=read", "-P", ipath, "-e", fmt.Sprintf("inject=read:error=EIO:when=%d", when))
		if p.StartErr != "" || strings.Contains(p.Stderr, "strace:") {
			return core.Result{Verdict: core.Inconclusive, Reason: "strace unavailable: " + trunc(p.StartErr+p.Stderr, 100)}
		}
	}
	if p.TimedOut {
		return core.Result{Verdict: core.Inconclusive, Reason: "watchdog"}
	}
	if p.Exit != 0 || strings.Contains(p.Stderr, "panic:") || strings.Contains(p.Stderr, "fatal error") {
		return fail(fmt.Sprintf("calc exited %d, stderr %q", p.Exit, trunc(p.Stderr, 300)))
	}
	out := p.Stdout
	if !strings.HasSuffix(out, "done") {
		return fail(fmt.Sprintf("the script did not run to its end after the reads: %q", trunc(out, 300)))
	}
	out = strings.TrimSuffix(out, "done")
	nerr := strings.Count(out, "RUNTIME ERROR : read error")
	if kind == "eio" {
		// whole lines first, then at least one reported read error (the reads after the failed one are not specified)
		whole := 0
		rest := out
		for whole < len(lines) && strings.HasPrefix(rest, lines[whole]) {
			rest = rest[len(lines[whole]):]
			whole++
		}
		if nerr == 0 && whole < k && whole < nlines {
			return fail(fmt.Sprintf("an injected EIO was neither reported nor survived: %d whole lines of %d reads, output tail %q", whole, k, trunc(rest, 200)))
		}
		res.Add("eio_runs", 1)
	} else {
		n := k
		if n > nlines {
			n = nlines
		}
		want := strings.Join(lines[:n], "")
		if !strings.HasPrefix(out, want) {
			return fail(fmt.Sprintf("%d read() calls against a %s printed %q, the input starts with %q", k, kind, trunc(out, 200), trunc(want, 200)))
		}
		if wantErr := k - n; nerr != wantErr {
			return fail(fmt.Sprintf("%d read() calls on %d lines reported %d read errors, expected %d", k, nlines, nerr, wantErr))
		}
		res.Add("lines_read_by_processes", n)
	}
	res.Tag("stdin:" + kind)
	res.Add("process_runs", 1)
	res.Verdict = core.Held
	res.Nontrivial = true
	res.Sample = map[string]any{"family": "proc", "stdin_kind": kind, "lines": nlines, "reads": k}
	return res
}

// c17Exit: what a statement wrote before it called exit() is on standard output, the exit status is the
// argument, nothing after the exit runs; write and exit in one statement (block, function, loop body) and
// in separate statements, in file mode and with -eval.
func c17Exit(ctx *core.Ctx, idx int) core.Result {
	r := core.CaseRng(ctx.Seed, "C17/exit", idx)
	var res core.Result
	bin := calcrun.CalcBinary()
	if bin == "" {
		return core.Result{Verdict: core.Inconclusive, Reason: "no calc binary (VERIF_CALC_BIN)"}
	}
	code := r.Range(0, 9)
	n := r.Range(1, 40)
	if r.Chance(1, 4) {
		n = r.Range(4000, 9000) // around the usual buffer size
	}
	var sb strings.Builder
	for j := 0; j < n; j++ {
		sb.WriteByte("abcdefghij klmnop0123"[r.Intn(21)])
	}
	text := sb.String()
	shape := idx % 4
	var script string
	switch shape {
	case 0:
		script = fmt.Sprintf("{\n write(\"%s\")\n exit(%d)\n}\nwrite(\"AFTER\")\n", text, code)
	case 1:
		script = fmt.Sprintf("zbye = (k) -> {\n write(\"%s\")\n exit(k)\n}\nzbye(%d)\nwrite(\"AFTER\")\n", text, code)
	case 2:
		script = fmt.Sprintf("for zi <- fromto(0, 5) {\n write(\"%s\")\n if zi == 0 exit(%d)\n}\nwrite(\"AFTER\")\n", text, code)
	default:
		script = fmt.Sprintf("write(\"%s\")\nexit(%d)\nwrite(\"AFTER\")\n", text, code)
	}
	res.Hash = core.HashString(script)
	in := map[string]any{"script": trunc(script, 400), "exit_code": code}
	spath, rm := scratchFile("c17-exit-*.calc", script)
	defer rm()
	p := calcrun.RunCalc(bin, []string{spath}, nil, "", 20*time.Second)
	if p.TimedOut {
		return core.Result{Verdict: core.Inconclusive, Reason: "watchdog"}
	}
	if p.Exit != code || p.Stdout != text {
		res.Verdict = core.Violated
		res.Viol = &core.Violation{Monitor: "builtin-contract", Detail: fmt.Sprintf("a script that writes %d characters and then calls exit(%d) ended with status %d and %d characters on standard output (%q ...)", len(text), code, p.Exit, len(p.Stdout), trunc(p.Stdout, 80)), Input: in}
		return res
	}
	res.Add("exit_runs", 1)
	res.Tag(fmt.Sprintf("exit-shape:%d", shape))
	res.Verdict = core.Held
	res.Nontrivial = true
	res.Sample = in
	return res
}
