//go:build !skip_c14

package props

import (
	"fmt"
	"regexp"
	"strings"

	"github.com/paulsonkoly/calc/lexer"
	"github.com/paulsonkoly/calc/types/token"

	"verif/core"
)

// C14 — tokenisation is faithful to the text. Trace laws over the token
// stream of the real lexer + a reference scanner written from the README
// token table + metamorphic re-scan of layout variants.


type tok struct {
	Kind     token.Kind
	Text     string
	From, To int
}

type lexOutcome struct {
	Toks    []tok
	Err     string // lexer error message (input rejected)
	Panic   string
	Hang    bool
	MaxIter int // max scanning-loop iterations of one Next call
	Nexts   int
}

// runLexer drives the real lexer to the end under the progress bound.
func runLexer(input string) (o lexOutcome) {
	defer func() {
		if r := recover(); r != nil {
			if h, ok := r.(lexer.VerifLexLimitHit); ok {
				o.Hang = true
				o.Panic = fmt.Sprintf("%s exceeded bound: %d", h.What, h.Count)
				return
			}
			o.Panic = fmt.Sprint(r)
		}
	}()
	l := lexer.NewLexer(input)
	lexer.VerifLex.IterLimit = 4*len(input) + 64
	defer func() { lexer.VerifLex.IterLimit = 0 }()
	for {
		lexer.VerifLexReset()
		more := l.Next()
		o.Nexts++
		if lexer.VerifLex.Iter > o.MaxIter {
			o.MaxIter = lexer.VerifLex.Iter
		}
		if !more {
			if l.Err != nil {
				o.Err = l.Err.Error()
			}
			return
		}
		if l.Err != nil {
			o.Err = l.Err.Error()
			return
		}
		o.Toks = append(o.Toks, tok{l.Token.Type, l.Token.Value, l.Token.From(), l.Token.To()})
		if o.Nexts > len(input)+8 {
			o.Hang = true
			o.Panic = "more tokens than input bytes"
			return
		}
	}
}

var gapRe = regexp.MustCompile(`^([ \t]|;[^\n]*)*$`)

// lexLaws evaluates the C14 laws on an accepted token stream. It returns the
// first broken law or "".
func lexLaws(input string, ts []tok) string {
	n := len(ts)
	if n < 2 || ts[n-1].Kind != token.EOF || ts[n-2].Kind != token.EOL {
		return "stream does not end with EOL, EOF"
	}
	eofs := 0
	for _, t := range ts {
		if t.Kind == token.EOF {
			eofs++
		}
	}
	if eofs != 1 {
		return fmt.Sprintf("%d EOF tokens", eofs)
	}
	// real tokens: everything but the synthetic end markers
	var real []tok
	synthEOL := 0
	for i, t := range ts {
		if t.Kind == token.EOF {
			continue
		}
		if t.Kind == token.EOL && t.From == t.To {
			synthEOL++
			if i != n-2 {
				return "synthetic EOL not in last-but-one position"
			}
			continue
		}
		real = append(real, t)
	}
	wantSynth := 1
	if len(real) > 0 && real[len(real)-1].Kind == token.EOL {
		wantSynth = 0
	}
	if synthEOL != wantSynth {
		return fmt.Sprintf("%d synthetic EOL tokens, want %d", synthEOL, wantSynth)
	}
	pos := 0
	for i, t := range real {
		if t.From < pos || t.To < t.From || t.To > len(input) {
			return fmt.Sprintf("token %d span [%d,%d) out of order/overlapping (previous end %d, input length %d)", i, t.From, t.To, pos, len(input))
		}
		if !gapRe.MatchString(input[pos:t.From]) {
			return fmt.Sprintf("gap %q before token %d is not blanks/comments", input[pos:t.From], i)
		}
		span := input[t.From:t.To]
		switch t.Kind {
		case token.StringLit:
			if strings.ReplaceAll(span, "\\n", "\n") != t.Text {
				return fmt.Sprintf("string token text %q is not its span %q", t.Text, span)
			}
		default:
			if span != t.Text {
				return fmt.Sprintf("token %d text %q is not its span %q", i, t.Text, span)
			}
		}
		switch t.Kind {
		case token.Sticky:
			for _, c := range span {
				if !strings.ContainsRune(stickySet, c) {
					return fmt.Sprintf("sticky token %q contains a non-operator character", span)
				}
			}
			if t.From > 0 && strings.IndexByte(stickySet, input[t.From-1]) >= 0 && t.From == pos {
				return fmt.Sprintf("operator run split before %q", span)
			}
			if t.To < len(input) && strings.IndexByte(stickySet, input[t.To]) >= 0 {
				return fmt.Sprintf("operator run %q not maximal", span)
			}
		case token.NotSticky:
			if len(span) != 1 || !strings.Contains(nonStickySet, span) {
				return fmt.Sprintf("non-sticky token %q", span)
			}
		case token.EOL:
			if span != "\n" {
				return fmt.Sprintf("EOL token with text %q", span)
			}
		case token.IntLit, token.FloatLit, token.Name, token.StringLit:
			if span == "" {
				return "empty literal/name token"
			}
		default:
			return fmt.Sprintf("token of kind %v in an accepted stream", t.Kind)
		}
		pos = t.To
	}
	if !gapRe.MatchString(input[pos:]) {
		return fmt.Sprintf("trailing gap %q is not blanks/comments", input[pos:])
	}
	// every line break outside string literals is exactly one EOL token
	inTok := make([]byte, len(input))
	for _, t := range real {
		if t.Kind == token.StringLit {
			for i := t.From; i < t.To; i++ {
				inTok[i] = 's'
			}
		}
		if t.Kind == token.EOL {
			inTok[t.From] = 'n'
		}
	}
	for i := 0; i < len(input); i++ {
		if input[i] == '\n' && inTok[i] == 0 {
			return fmt.Sprintf("line break at offset %d produced no EOL token", i)
		}
	}
	return ""
}

// refScan is the reference scanner written from the README token table
// (maximal munch per character class). ok is false when the text contains
// something the table does not allow.
func refScan(input string) (ts []tok, ok bool) {
	i := 0
	n := len(input)
	isDigit := func(c byte) bool { return c >= '0' && c <= '9' }
	isLower := func(c byte) bool { return c >= 'a' && c <= 'z' }
	for i < n {
		c := input[i]
		switch {
		case c == ' ' || c == '\t':
			i++
		case c == ';':
			for i < n && input[i] != '\n' {
				i++
			}
		case c == '\n':
			ts = append(ts, tok{token.EOL, "\n", i, i + 1})
			i++
		case isDigit(c):
			j := i
			for j < n && isDigit(input[j]) {
				j++
			}
			k := token.IntLit
			if j < n && input[j] == '.' {
				k = token.FloatLit
				j++
				for j < n && isDigit(input[j]) {
					j++
				}
			}
			ts = append(ts, tok{k, input[i:j], i, j})
			i = j
		case isLower(c):
			j := i
			for j < n && isLower(input[j]) {
				j++
			}
			ts = append(ts, tok{token.Name, input[i:j], i, j})
			i = j
		case c == '"':
			j := i + 1
			for {
				if j >= n {
					return nil, false // unterminated
				}
				if input[j] == '\\' {
					j += 2
					continue
				}
				if input[j] == '"' {
					break
				}
				j++
			}
			j++
			ts = append(ts, tok{token.StringLit, strings.ReplaceAll(input[i:j], "\\n", "\n"), i, j})
			i = j
		case strings.IndexByte(nonStickySet, c) >= 0:
			ts = append(ts, tok{token.NotSticky, input[i : i+1], i, i + 1})
			i++
		case strings.IndexByte(stickySet, c) >= 0:
			j := i
			for j < n && strings.IndexByte(stickySet, input[j]) >= 0 {
				j++
			}
			ts = append(ts, tok{token.Sticky, input[i:j], i, j})
			i = j
		default:
			return nil, false
		}
	}
	return ts, true
}

func kindsTexts(ts []tok) string {
	var sb strings.Builder
	for _, t := range ts {
		if t.Kind == token.EOF || (t.Kind == token.EOL && t.From == t.To) {
			continue
		}
		fmt.Fprintf(&sb, "%d:%q ", t.Kind, t.Text)
	}
	return sb.String()
}

// relayout rebuilds the text with different (never removed) blank space and
// extra comments before line breaks.
func relayout(r *core.Rng, input string, ts []tok) string {
	var sb strings.Builder
	pos := 0
	blank := func() string {
		return []string{" ", "  ", "\t", " \t ", "   "}[r.Intn(5)]
	}
	for _, t := range ts {
		if t.Kind == token.EOF || (t.Kind == token.EOL && t.From == t.To) {
			continue
		}
		gap := input[pos:t.From]
		switch {
		case strings.Contains(gap, ";"):
			sb.WriteString(gap) // keep comments as they are
			if r.Chance(1, 3) {
				sb.WriteString(" more")
			}
		case gap != "":
			sb.WriteString(blank())
		case r.Chance(1, 3):
			sb.WriteString(blank())
		}
		if t.Kind == token.EOL && !strings.Contains(gap, ";") && r.Chance(1, 4) {
			sb.WriteString(" ; a comment ] \" } ")
		}
		sb.WriteString(input[t.From:t.To])
		pos = t.To
	}
	sb.WriteString(input[pos:])
	return sb.String()
}

func c14Check(r *core.Rng, input string, family string) core.Result {
	var res core.Result
	res.Hash = core.HashString(input)
	fail := func(mon, d string) core.Result {
		res.Verdict = core.Violated
		res.Viol = &core.Violation{Monitor: mon, Detail: d, Input: input}
		return res
	}
	o := runLexer(input)
	res.SetMax("lexer_iterations_per_next", o.MaxIter)
	res.SetMax("input_bytes", len(input))
	if o.Hang || o.Panic != "" {
		// hangs and aborts are C06's subject; C14 speaks about accepted inputs only
		res.Verdict = core.Inconclusive
		res.Reason = "front end did not terminate normally (decided by C06)"
		return res
	}
	if o.Err != "" {
		// a rejection must have a reason the README token table gives: a character outside the alphabet, an
		// unterminated string, or (the lexer's own range check) a numeric literal too long to be exact
		if ref, ok := refScan(input); ok && !strings.Contains(input, "\x00") { // (a NUL byte is refused wherever it stands)
			longest := 0
			for _, t := range ref {
				if (t.Kind == token.IntLit || t.Kind == token.FloatLit) && len(t.Text) > longest {
					longest = len(t.Text)
				}
			}
			if longest <= 15 {
				return fail("reference-scanner", fmt.Sprintf("lexer rejected (%s) a text the README token table allows: %s", o.Err, kindsTexts(ref)))
			}
		}
		res.Verdict = core.Held
		res.Add("rejected_inputs", 1)
		res.Sample = map[string]any{"input": input, "rejected": o.Err}
		return res
	}
	res.Add("accepted_inputs", 1)
	res.Add("tokens", len(o.Toks))
	for _, t := range o.Toks {
		res.Tag("kind:" + t.Kind.String())
	}
	if d := lexLaws(input, o.Toks); d != "" {
		return fail("token-stream-laws", d)
	}
	if ref, ok := refScan(input); ok {
		res.Add("reference_scans", 1)
		if kindsTexts(ref) != kindsTexts(o.Toks) {
			return fail("reference-scanner", fmt.Sprintf("lexer: %s | README scanner: %s", kindsTexts(o.Toks), kindsTexts(ref)))
		}
	} else {
		return fail("reference-scanner", "lexer accepted a text the README token table does not allow: "+kindsTexts(o.Toks))
	}
	// metamorphic re-scan of a layout variant
	v := relayout(r, input, o.Toks)
	o2 := runLexer(v)
	if o2.Hang || o2.Panic != "" || o2.Err != "" {
		return fail("layout-variant", fmt.Sprintf("variant %q no longer accepted: %s%s", v, o2.Err, o2.Panic))
	}
	if kindsTexts(o2.Toks) != kindsTexts(o.Toks) {
		return fail("layout-variant", fmt.Sprintf("variant %q scans to %s, original to %s", v, kindsTexts(o2.Toks), kindsTexts(o.Toks)))
	}
	if d := lexLaws(v, o2.Toks); d != "" {
		return fail("token-stream-laws", "on layout variant: "+d)
	}
	res.Add("layout_variants", 1)
	res.Verdict = core.Held
	res.Nontrivial = len(o.Toks) >= 4
	res.Sample = map[string]any{"family": family, "input": input, "tokens": kindsTexts(o.Toks)}
	return res
}

func init() {
	register(&core.Property{
		ID:   "C14",
		Rule: "inputs: seeded strings over the language alphabet built from token pieces (ints, floats, names, keywords, strings with escapes/newlines/specials, operator runs, brackets, newlines, blanks, comments, rare foreign characters), the repository examples and README programs, and random mutations (truncate, delete, duplicate, byte flip, splice) of those. Each accepted input is checked against the span/text/gap/run/EOL/terminator laws, a reference scanner, and one relaid-out variant. non-trivial = accepted with at least 4 tokens; distinct by input text.",
		Assumptions: []string{
			"string literal token text is compared modulo the \\n escape expansion that lexer_test.go pins",
			"reference scanner accepts digits '.' digits* as a float (the lexer accepts a trailing '.'; the README regex is silent on adjacency)",
			"hangs/aborts of the lexer are reported by C06, not here (counted inconclusive)"},
		Families: []core.Family{
			{Name: "corpus", Count: func(string) int { return len(corpus()) }, Run: func(ctx *core.Ctx, idx int) core.Result {
				return c14Check(core.CaseRng(ctx.Seed, "C14/corpus", idx), corpus()[idx], "corpus")
			}},
			{Name: "soup", Count: countFn(200000, 6000000), Run: func(ctx *core.Ctx, idx int) core.Result {
				r := core.CaseRng(ctx.Seed, "C14/soup", idx)
				return c14Check(r, genLexText(r), "soup")
			}},
			{Name: "mutation", Count: countFn(100000, 3000000), Run: func(ctx *core.Ctx, idx int) core.Result {
				r := core.CaseRng(ctx.Seed, "C14/mutation", idx)
				cs := corpus()
				s := cs[r.Intn(len(cs))]
				if len(s) > 600 {
					a := r.Intn(len(s) - 600)
					s = s[a : a+600]
				}
				for k := r.Range(1, 3); k > 0; k-- {
					s = mutateText(r, s)
				}
				return c14Check(r, s, "mutation")
			}},
			{Name: "long", Count: countFn(40, 1200), Run: func(ctx *core.Ctx, idx int) core.Result {
				// inputs of 64..160 KiB (positions beyond any 16 bit field), built from the same soup
				r := core.CaseRng(ctx.Seed, "C14/long", idx)
				var sb strings.Builder
				target := r.Range(65000, 160000)
				if idx%4 == 0 {
					sb.WriteString("; " + strings.Repeat("c", r.Range(65500, 70000)) + "\n") // one long comment first
				}
				for sb.Len() < target {
					t := genLexText(r)
					// only pieces the token table accepts (one bad character would turn the whole text into a rejection)
					if _, ok := refScan(t); !ok || strings.Contains(t, "\x00") || runLexer(t).Err != "" {
						continue
					}
					sb.WriteString(t)
					sb.WriteString("\n")
				}
				res := c14Check(r, sb.String(), "long")
				if res.Count["accepted_inputs"] > 0 {
					res.Add("long_inputs_accepted", 1)
				}
				return res
			}},
		},
		Floors: []core.Floor{{Key: "long_inputs_accepted", Quick: 30, Thor: 900}, {Key: "accepted_inputs", Quick: 20000, Thor: 2000000}, {Key: "layout_variants", Quick: 20000, Thor: 2000000}, {Key: "tag:kind:", Quick: 7, Thor: 7}, {Key: "nontrivial", Quick: 15000, Thor: 1500000}},
	})
	core.MaxInconclusivePct["C14"] = 10
}
