package props

import (
	"fmt"

	"verif/ast"
	"verif/core"
	"verif/gen"
)

// C04 — lexical scoping and isolation. Differential against the reference
// semantics + globals-frame monitor (the complete global frame is compared
// after every statement) + caller-frame self-checks written in calc (every
// function snapshots all visible names before and after each call it makes).

func c04Scope(ctx *core.Ctx, idx int) core.Result {
	r := core.CaseRng(ctx.Seed, "C04/scope", idx)
	stmts := gen.ScopeProgram(r)
	opts := diffOpts{DoOut: idx%2 == 0, Stress: stressModes[(idx/2)%len(stressModes)], Residue: true, Globals: true, Marker: "DIFF:"}
	d := runDiff(stmts, opts)
	res := diffCase("C04", stmts, opts, d, nil)
	nfun, nesc := 0, 0
	for _, st := range stmts {
		ast.Walk(st, func(n ast.Node) bool {
			if _, ok := n.(ast.FuncLit); ok {
				nfun++
			}
			return true
		})
		if a, ok := st.(ast.Assign); ok && len(a.Name) == 4 && a.Name[:2] == "ze" {
			nesc++
		}
	}
	res.Add("functions_defined", nfun)
	res.Add("escaped_closures_called", nesc)
	if nesc > 0 {
		res.Tag("scope:escaped-closure")
	}
	if nfun >= 4 {
		res.Tag("scope:three-levels")
	}
	res.Nontrivial = d.Verdict == core.Held && nfun >= 2 && d.Stats.Calls >= 2
	return res
}

// c04Hof: closure plumbing (gen/hof.go) against the reference semantics.
func c04Hof(ctx *core.Ctx, idx int) core.Result { return hofCase("C04", ctx, idx, -1) }

func hofCase(prop string, ctx *core.Ctx, idx int, data int) core.Result {
	r := core.CaseRng(ctx.Seed, prop+"/hof", idx)
	stmts := gen.HofProgram(r, data, prop == "C02")
	opts := diffOpts{DoOut: idx%2 == 0, Stress: stressModes[(idx/2)%len(stressModes)], Residue: true, Globals: true}
	d := runDiff(stmts, opts)
	res := diffCase(prop, stmts, opts, d, map[string]any{"family": "hof"})
	nobs := 0
	for _, st := range stmts {
		ast.Walk(st, func(x ast.Node) bool {
			if _, ok := x.(ast.FuncLit); ok {
				return false
			}
			if a, ok := x.(ast.Assign); ok && len(a.Name) == 4 && a.Name[:2] == "zv" {
				nobs++
			}
			return true
		})
	}
	res.Add("escaped_closures_called", nobs)
	res.Add("closure_routes", countCalls(stmts, "zid", "zpick", "zhold", "zfirst"))
	res.Nontrivial = d.Verdict == core.Held && nobs >= 2 && d.Stats.Calls >= 4
	return res
}

// c04Params: parameter lists in which a name occurs more than once (the later parameter is the one the
// name denotes; every parameter still has its own slot), with locals, closures and loops after them.
func c04Params(ctx *core.Ctx, idx int) core.Result { return dupParamCase("C04", ctx, idx) }

func dupParamCase(prop string, ctx *core.Ctx, idx int) core.Result {
	r := core.CaseRng(ctx.Seed, prop+"/params", idx)
	pool := []string{"a", "b", "c"}
	n := r.Range(2, 5)
	ps := make([]string, n)
	for i := range ps {
		ps[i] = pool[r.Intn(len(pool))]
	}
	if idx%4 != 3 { // force a duplicate three times out of four
		i, j := r.Intn(n), r.Intn(n)
		if i != j {
			ps[j] = ps[i]
		}
	}
	v := func() ast.Node { return nm(ps[r.Intn(n)]) }
	var body ast.Node
	switch r.Intn(6) {
	case 0:
		body = v()
	case 1:
		body = ast.Block{Stmts: []ast.Node{ast.Assign{Name: ps[r.Intn(n)], Value: ast.StrLit{V: "x"}}, ast.ArrayLit{Elems: []ast.Node{v(), v()}}}}
	case 2:
		body = ast.Block{Stmts: []ast.Node{ast.Assign{Name: "zl", Value: il(5)}, ast.Assign{Name: "zm", Value: ast.Binary{Op: "+", L: nm("zl"), R: il(1)}}, ast.ArrayLit{Elems: []ast.Node{v(), nm("zl"), v(), nm("zm")}}}}
	case 3:
		body = ast.Block{Stmts: []ast.Node{ast.Assign{Name: "zg", Value: ast.FuncLit{Body: ast.ArrayLit{Elems: []ast.Node{v(), v()}}}}, ast.Assign{Name: "zl", Value: il(7)}, ast.ArrayLit{Elems: []ast.Node{icall("zg"), nm("zl")}}}}
	case 4:
		body = ast.Block{Stmts: []ast.Node{ast.Assign{Name: "zs", Value: ast.ArrayLit{}}, ast.For{Vars: []string{"zi"}, Iters: []ast.Node{icall("fromto", il(0), il(2))}, Body: ast.Assign{Name: "zs", Value: ast.Binary{Op: "+", L: nm("zs"), R: ast.ArrayLit{Elems: []ast.Node{v(), nm("zi")}}}}}, nm("zs")}}
	default:
		body = ast.FuncLit{Body: ast.ArrayLit{Elems: []ast.Node{v(), v()}}}
	}
	args := make([]ast.Node, n)
	for i := range args {
		args[i] = il(int64(10 + i))
	}
	if r.Chance(1, 6) {
		// a parameter, local or captured variable spelled like a built-in function and called: the variable is what runs
		bn := []string{"toa", "aton", "elems", "indices", "read", "write"}[r.Intn(6)]
		mine := ast.FuncLit{Params: []string{"v"}, Body: ast.ArrayLit{Elems: []ast.Node{nm("v"), il(int64(r.Intn(9)))}}}
		ps, args = []string{bn, "x"}, []ast.Node{mine, il(int64(r.Intn(50)))}
		call := ast.Call{Fn: bn, Args: []ast.Node{nm("x")}}
		switch r.Intn(5) {
		case 0:
			body = call
		case 1:
			body = ast.Block{Stmts: []ast.Node{ast.Assign{Name: "zl", Value: call}, ast.ArrayLit{Elems: []ast.Node{nm("zl"), nm("x")}}}}
		case 2:
			body = ast.FuncLit{Body: call}
		case 3: // a local of that name
			ps, args = []string{"x"}, args[1:]
			body = ast.Block{Stmts: []ast.Node{ast.Assign{Name: bn, Value: mine}, ast.Assign{Name: "zg", Value: ast.FuncLit{Body: call}}, ast.ArrayLit{Elems: []ast.Node{call, icall("zg")}}}}
		default: // a loop variable of that name
			ps, args = []string{"x"}, args[1:]
			body = ast.Block{Stmts: []ast.Node{ast.Assign{Name: "zs", Value: ast.ArrayLit{}}, ast.For{Vars: []string{bn}, Iters: []ast.Node{icall("elems", ast.ArrayLit{Elems: []ast.Node{mine, mine}})}, Body: ast.Assign{Name: "zs", Value: ast.Binary{Op: "+", L: nm("zs"), R: call}}}, nm("zs")}}
		}
		n = len(ps)
	}
	stmts := []ast.Node{ast.Assign{Name: "zf", Value: ast.FuncLit{Params: ps, Body: body}}, ast.Assign{Name: "zr", Value: ast.Call{Fn: "zf", Args: args}}}
	if _, ok := body.(ast.FuncLit); ok {
		stmts = append(stmts, icall("zdeep", il(30)), ast.Assign{Name: "zq", Value: icall("zr")})
		stmts = append([]ast.Node{ast.Assign{Name: "zdeep", Value: ast.FuncLit{Params: []string{"q"}, Body: ast.If{Cond: ast.Binary{Op: "<=", L: nm("q"), R: il(0)}, Then: il(0), Else: ast.Binary{Op: "+", L: il(1), R: icall("zdeep", ast.Binary{Op: "-", L: nm("q"), R: il(1)})}}}}}, stmts...)
	}
	stmts = append(stmts, ast.Assign{Name: "zr", Value: ast.Call{Fn: "zf", Args: args}}, nm("zr"))
	opts := diffOpts{DoOut: r.Bool(), Stress: stressModes[r.Intn(len(stressModes))], Residue: true, Globals: true}
	d := runDiff(stmts, opts)
	res := diffCase(prop, stmts, opts, d, map[string]any{"family": "params"})
	seen := map[string]bool{}
	dup := false
	for _, p := range ps {
		dup = dup || seen[p]
		seen[p] = true
	}
	if dup {
		res.Add("duplicate_parameter_lists", 1)
	}
	res.Nontrivial = d.Verdict == core.Held
	return res
}

// c04GenClosures: generators that are closures and run loops of their own whose iterator expressions read
// captured variables, consumed by loops in functions at call depth 0..4 whose callers all hold captured
// variables of their own (in the same slots, with other values): what a generator computes must not depend on
// how deep, and below whom, its consumer runs.
func c04GenClosures(ctx *core.Ctx, idx int) core.Result {
	r := core.CaseRng(ctx.Seed, "C04/genclosures", idx)
	bin := func(op string, l, rr ast.Node) ast.Node { return ast.Binary{Op: op, L: l, R: rr} }
	// the definer: some locals in front (so that the captured slot varies), then the captured variables
	var body []ast.Node
	for k := r.Range(0, 3); k > 0; k-- {
		body = append(body, ast.Assign{Name: "zp"+string(rune('a'+k)), Value: il(int64(1000 + r.Intn(99)))})
	}
	body = append(body, ast.Assign{Name: "lim", Value: bin("+", nm("n"), il(int64(r.Range(0, 2))))},
		ast.Assign{Name: "m", Value: il(int64(r.Range(2, 5)))},
		ast.Assign{Name: "xs", Value: ast.ArrayLit{Elems: []ast.Node{il(int64(r.Intn(9))), il(int64(10 + r.Intn(9))), il(int64(20 + r.Intn(9)))}}},
		ast.Assign{Name: "it", Value: ast.FuncLit{Body: icall("fromto", il(1), bin("+", nm("lim"), il(1)))}})
	var g ast.Node
	gk := r.Intn(5)
	switch gk {
	case 0:
		g = ast.FuncLit{Body: ast.For{Vars: []string{"i"}, Iters: []ast.Node{icall("fromto", il(0), nm("lim"))}, Body: ast.Yield{X: bin("*", nm("i"), nm("m"))}}}
	case 1:
		g = ast.FuncLit{Body: ast.For{Vars: []string{"e"}, Iters: []ast.Node{icall("it")}, Body: ast.Yield{X: bin("+", nm("e"), nm("m"))}}}
	case 2:
		g = ast.FuncLit{Body: ast.For{Vars: []string{"i", "e"}, Iters: []ast.Node{icall("fromto", il(0), nm("lim")), icall("elems", nm("xs"))}, Body: ast.Yield{X: bin("+", nm("i"), nm("e"))}}}
	case 3: // a generator over a generator, both closures of the same call
		body = append(body, ast.Assign{Name: "gz", Value: ast.FuncLit{Body: ast.For{Vars: []string{"i"}, Iters: []ast.Node{icall("fromto", il(0), nm("lim"))}, Body: ast.Yield{X: bin("+", nm("i"), il(1))}}}})
		g = ast.FuncLit{Body: ast.For{Vars: []string{"v"}, Iters: []ast.Node{icall("gz")}, Body: ast.Yield{X: bin("*", nm("v"), nm("m"))}}}
	default: // the loop is not the generator's first statement
		g = ast.FuncLit{Body: ast.Block{Stmts: []ast.Node{ast.Yield{X: nm("m")}, ast.For{Vars: []string{"e"}, Iters: []ast.Node{icall("elems", ast.Slice{X: nm("xs"), I: il(0), J: bin("%", nm("lim"), il(4))})}, Body: ast.Yield{X: nm("e")}}, ast.Yield{X: nm("lim")}}}}
	}
	body = append(body, ast.Assign{Name: "g", Value: g}, nm("g"))
	stmts := []ast.Node{ast.Assign{Name: "zmk", Value: ast.FuncLit{Params: []string{"n"}, Body: ast.Block{Stmts: body}}}}
	// consumers: zla runs the loop; zlb.. call the one below; each holds captured variables of its own
	stmts = append(stmts, ast.Assign{Name: "zla", Value: ast.FuncLit{Params: []string{"gg"}, Body: ast.Block{Stmts: []ast.Node{
		ast.Assign{Name: "q", Value: il(int64(100 + r.Intn(50)))}, ast.Assign{Name: "kq", Value: ast.FuncLit{Body: nm("q")}},
		ast.Assign{Name: "s", Value: ast.ArrayLit{}},
		ast.For{Vars: []string{"v"}, Iters: []ast.Node{icall("gg")}, Body: ast.Assign{Name: "s", Value: bin("+", nm("s"), ast.ArrayLit{Elems: []ast.Node{nm("v")}})}},
		bin("+", nm("s"), ast.ArrayLit{Elems: []ast.Node{bin("-", icall("kq"), nm("q"))}})}}}})
	depth := r.Range(1, 4)
	for d := 1; d <= depth; d++ {
		var pads []ast.Node
		for k := r.Range(0, 2); k > 0; k-- {
			pads = append(pads, ast.Assign{Name: "zw"+string(rune('a'+k)), Value: il(int64(7 * d * k))})
		}
		fb := append(pads, ast.Assign{Name: "w", Value: il(int64(7*d + r.Intn(5)))}, ast.Assign{Name: "kw", Value: ast.FuncLit{Body: nm("w")}},
			ast.Assign{Name: "res", Value: icall("zl"+string(rune('a'+d-1)), nm("gg"))},
			bin("+", nm("res"), ast.ArrayLit{Elems: []ast.Node{bin("-", icall("kw"), nm("w"))}}))
		stmts = append(stmts, ast.Assign{Name: "zl"+string(rune('a'+d)), Value: ast.FuncLit{Params: []string{"gg"}, Body: ast.Block{Stmts: fb}}})
	}
	stmts = append(stmts, ast.Assign{Name: "zga", Value: icall("zmk", il(int64(r.Range(1, 4))))}, ast.Assign{Name: "zgb", Value: icall("zmk", il(int64(r.Range(0, 5))))})
	at := func() ast.Node {
		return icall("zl"+string(rune('a'+r.Intn(depth+1))), nm([]string{"zga", "zgb"}[r.Intn(2)]))
	}
	for k := r.Range(2, 5); k > 0; k-- {
		switch r.Intn(4) {
		case 0:
			stmts = append(stmts, ast.ArrayLit{Elems: []ast.Node{at(), at()}})
		case 1: // from inside a loop body (the consumer's callers run under an iterator context of the statement)
			stmts = append(stmts, ast.Block{Stmts: []ast.Node{ast.Assign{Name: "zacc", Value: ast.ArrayLit{}}, ast.For{Vars: []string{"zt"}, Iters: []ast.Node{icall("fromto", il(0), il(2))}, Body: ast.Assign{Name: "zacc", Value: bin("+", nm("zacc"), at())}}, nm("zacc")}})
		case 2: // consumed directly at top level
			stmts = append(stmts, ast.Block{Stmts: []ast.Node{ast.Assign{Name: "zacc", Value: ast.ArrayLit{}}, ast.For{Vars: []string{"zt"}, Iters: []ast.Node{icall("zga")}, Body: ast.Assign{Name: "zacc", Value: bin("+", nm("zacc"), ast.ArrayLit{Elems: []ast.Node{nm("zt")}})}}, nm("zacc")}})
		default:
			stmts = append(stmts, ast.Assign{Name: "zo"+string(rune('a'+k)), Value: at()})
		}
	}
	opts := diffOpts{DoOut: r.Bool(), Stress: stressModes[r.Intn(len(stressModes))], Residue: true, Globals: true}
	d := runDiff(stmts, opts)
	res := diffCase("C04", stmts, opts, d, map[string]any{"family": "genclosures", "generator_kind": gk, "caller_depth": depth})
	res.Tag(fmt.Sprintf("genclosure:%d", gk))
	res.Nontrivial = d.Verdict == core.Held && d.Stats.Yields >= 3 && d.Stats.Calls >= 4
	return res
}

func countCalls(stmts []ast.Node, fns ...string) int {
	n := 0
	for _, st := range stmts {
		ast.Walk(st, func(x ast.Node) bool {
			if c, ok := x.(ast.Call); ok {
				for _, f := range fns {
					if c.Fn == f {
						n++
					}
				}
			}
			return true
		})
	}
	return n
}

func c04Typed(ctx *core.Ctx, idx int) core.Result {
	r := core.CaseRng(ctx.Seed, "C04/typed", idx)
	o := gen.DefaultOpts()
	o.MaxDepth = r.Range(2, 4)
	o.MaxStmts = r.Range(2, 6)
	o.Generators = r.Chance(1, 3)
	g := gen.New(r, o)
	stmts := g.Session(r.Range(3, 8))
	opts := diffOpts{DoOut: idx%2 == 0, Stress: stressModes[(idx/2)%len(stressModes)], Residue: true, Globals: true}
	d := runDiff(stmts, opts)
	res := diffCase("C04", stmts, opts, d, nil)
	res.Tags = append(res.Tags, classesOf(g)...)
	return res
}

func init() {
	register(&core.Property{
		ID:          "C04",
		Rule:        "(1) name-pressure sessions: 2..5 names used at once as global, parameter, local initialised from the outer variable (the README's a = a+1 pattern), fresh local, for-variable and captured variable across functions nested up to 3 levels (the third level must not see the first level's variables); every function writes all visible names on entry/middle, snapshots them before and after every call it makes (DIFF marker if a call changed them), updates a captured variable and calls the closure again (sharing until return), and lets closures escape directly, inside an array or inside an array of arrays; escaped closures are dug out and called after deep recursion overwrote the dead frames; (2) typed sessions with local functions, higher-order parameters and returned closures; (3) hof: closure plumbing (gen/hof.go) — sibling closures of one call that hand out or call each other, closures routed through other functions (returned unchanged, picked, wrapped in a capturing closure, yielded by a generator and returned out of the consuming loop, [f][0]) while the defining call is live and its variables change, nested definers, closures yielded by generators whose loop is left early, all called again after the defining call returned and other calls, deep recursion and loops reused the stack and recycled the iterator contexts (half of the sessions are one top-level statement, since contexts are recycled per statement); (4) params: repeated parameter names, and parameters/locals/loop variables spelled like built-in functions and called; (5) genclosures: closure generators whose own loops read captured variables in their iterator expressions, consumed at call depth 0..4 under callers that hold captured variables of their own; all with the complete global frame compared with the reference after every statement, REPL/script mode, plain/tight/pregrown allocation. non-trivial = >= 2 functions and >= 2 calls; distinct by session and mode.",
		Assumptions: []string{"names are declared (parameter or first statements) before any loop of the function body, so static and dynamic lookup order cannot differ (DESIGN.md 4.3 rule 1)"},
		Families: []core.Family{
			{Name: "corpus", Count: func(string) int { return len(corpusSessions()) * 2 * len(stressModes) }, Run: func(_ *core.Ctx, idx int) core.Result { return corpusCase("C04", idx, true) }},
			{Name: "scope", Count: countFn(9000, 500000), Run: c04Scope},
			{Name: "typed", Count: countFn(5000, 200000), Run: c04Typed},
			{Name: "hof", Count: countFn(5000, 300000), Run: c04Hof},
			{Name: "params", Count: countFn(1200, 60000), Run: c04Params},
			{Name: "genclosures", Count: countFn(1500, 80000), Run: c04GenClosures},
		},
		Floors: []core.Floor{{Key: "statements_compared", Quick: 30000, Thor: 3000000}, {Key: "functions_defined", Quick: 8000, Thor: 800000}, {Key: "escaped_closures_called", Quick: 10000, Thor: 1000000}, {Key: "closure_routes", Quick: 10000, Thor: 600000}, {Key: "tag:scope:", Quick: 2, Thor: 2}, {Key: "nontrivial", Quick: 3000, Thor: 300000}},
	})
}
