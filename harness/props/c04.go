package props

import (
	"verif/ast"
	"verif/core"
	"verif/gen"
)

// C04 — lexical scoping and isolation. Differential against the reference
// semantics + globals-frame monitor (the complete global frame is compared
// after every statement) + caller-frame self-checks written in calc (every
// function snapshots all visible names before and after each call it makes).

func c04Scope(ctx *core.Ctx, idx int) core.Result {
	r := core.CaseRng(ctx.Seed, "C04/scope", idx)
	stmts := gen.ScopeProgram(r)
	opts := diffOpts{DoOut: idx%2 == 0, Stress: stressModes[(idx/2)%len(stressModes)], Residue: true, Globals: true, Marker: "DIFF:"}
	d := runDiff(stmts, opts)
	res := diffCase("C04", stmts, opts, d, nil)
	nfun, nesc := 0, 0
	for _, st := range stmts {
		ast.Walk(st, func(n ast.Node) bool {
			if _, ok := n.(ast.FuncLit); ok {
				nfun++
			}
			return true
		})
		if a, ok := st.(ast.Assign); ok && len(a.Name) == 4 && a.Name[:2] == "ze" {
			nesc++
		}
	}
	res.Add("functions_defined", nfun)
	res.Add("escaped_closures_called", nesc)
	if nesc > 0 {
		res.Tag("scope:escaped-closure")
	}
	if nfun >= 4 {
		res.Tag("scope:three-levels")
	}
	res.Nontrivial = d.Verdict == core.Held && nfun >= 2 && d.Stats.Calls >= 2
	return res
}

// c04Hof: closure plumbing (gen/hof.go) against the reference semantics.
func c04Hof(ctx *core.Ctx, idx int) core.Result { return hofCase("C04", ctx, idx, -1) }

func hofCase(prop string, ctx *core.Ctx, idx int, data int) core.Result {
	r := core.CaseRng(ctx.Seed, prop+"/hof", idx)
	stmts := gen.HofProgram(r, data, prop == "C02")
	opts := diffOpts{DoOut: idx%2 == 0, Stress: stressModes[(idx/2)%len(stressModes)], Residue: true, Globals: true}
	d := runDiff(stmts, opts)
	res := diffCase(prop, stmts, opts, d, map[string]any{"family": "hof"})
	nobs := 0
	for _, st := range stmts {
		ast.Walk(st, func(x ast.Node) bool {
			if _, ok := x.(ast.FuncLit); ok {
				return false
			}
			if a, ok := x.(ast.Assign); ok && len(a.Name) == 4 && a.Name[:2] == "zv" {
				nobs++
			}
			return true
		})
	}
	res.Add("escaped_closures_called", nobs)
	res.Add("closure_routes", countCalls(stmts, "zid", "zpick", "zhold", "zfirst"))
	res.Nontrivial = d.Verdict == core.Held && nobs >= 2 && d.Stats.Calls >= 4
	return res
}

// c04Params: parameter lists in which a name occurs more than once (the later parameter is the one the
// name denotes; every parameter still has its own slot), with locals, closures and loops after them.
func c04Params(ctx *core.Ctx, idx int) core.Result { return dupParamCase("C04", ctx, idx) }

func dupParamCase(prop string, ctx *core.Ctx, idx int) core.Result {
	r := core.CaseRng(ctx.Seed, prop+"/params", idx)
	pool := []string{"a", "b", "c"}
	n := r.Range(2, 5)
	ps := make([]string, n)
	for i := range ps {
		ps[i] = pool[r.Intn(len(pool))]
	}
	if idx%4 != 3 { // force a duplicate three times out of four
		i, j := r.Intn(n), r.Intn(n)
		if i != j {
			ps[j] = ps[i]
		}
	}
	v := func() ast.Node { return nm(ps[r.Intn(n)]) }
	var body ast.Node
	switch r.Intn(6) {
	case 0:
		body = v()
	case 1:
		body = ast.Block{Stmts: []ast.Node{ast.Assign{Name: ps[r.Intn(n)], Value: ast.StrLit{V: "x"}}, ast.ArrayLit{Elems: []ast.Node{v(), v()}}}}
	case 2:
		body = ast.Block{Stmts: []ast.Node{ast.Assign{Name: "zl", Value: il(5)}, ast.Assign{Name: "zm", Value: ast.Binary{Op: "+", L: nm("zl"), R: il(1)}}, ast.ArrayLit{Elems: []ast.Node{v(), nm("zl"), v(), nm("zm")}}}}
	case 3:
		body = ast.Block{Stmts: []ast.Node{ast.Assign{Name: "zg", Value: ast.FuncLit{Body: ast.ArrayLit{Elems: []ast.Node{v(), v()}}}}, ast.Assign{Name: "zl", Value: il(7)}, ast.ArrayLit{Elems: []ast.Node{icall("zg"), nm("zl")}}}}
	case 4:
		body = ast.Block{Stmts: []ast.Node{ast.Assign{Name: "zs", Value: ast.ArrayLit{}}, ast.For{Vars: []string{"zi"}, Iters: []ast.Node{icall("fromto", il(0), il(2))}, Body: ast.Assign{Name: "zs", Value: ast.Binary{Op: "+", L: nm("zs"), R: ast.ArrayLit{Elems: []ast.Node{v(), nm("zi")}}}}}, nm("zs")}}
	default:
		body = ast.FuncLit{Body: ast.ArrayLit{Elems: []ast.Node{v(), v()}}}
	}
	args := make([]ast.Node, n)
	for i := range args {
		args[i] = il(int64(10 + i))
	}
	stmts := []ast.Node{ast.Assign{Name: "zf", Value: ast.FuncLit{Params: ps, Body: body}}, ast.Assign{Name: "zr", Value: ast.Call{Fn: "zf", Args: args}}}
	if _, ok := body.(ast.FuncLit); ok {
		stmts = append(stmts, icall("zdeep", il(30)), ast.Assign{Name: "zq", Value: icall("zr")})
		stmts = append([]ast.Node{ast.Assign{Name: "zdeep", Value: ast.FuncLit{Params: []string{"q"}, Body: ast.If{Cond: ast.Binary{Op: "<=", L: nm("q"), R: il(0)}, Then: il(0), Else: ast.Binary{Op: "+", L: il(1), R: icall("zdeep", ast.Binary{Op: "-", L: nm("q"), R: il(1)})}}}}}, stmts...)
	}
	stmts = append(stmts, ast.Assign{Name: "zr", Value: ast.Call{Fn: "zf", Args: args}}, nm("zr"))
	opts := diffOpts{DoOut: r.Bool(), Stress: stressModes[r.Intn(len(stressModes))], Residue: true, Globals: true}
	d := runDiff(stmts, opts)
	res := diffCase(prop, stmts, opts, d, map[string]any{"family": "params"})
	seen := map[string]bool{}
	dup := false
	for _, p := range ps {
		dup = dup || seen[p]
		seen[p] = true
	}
	if dup {
		res.Add("duplicate_parameter_lists", 1)
	}
	res.Nontrivial = d.Verdict == core.Held
	return res
}

func countCalls(stmts []ast.Node, fns ...string) int {
	n := 0
	for _, st := range stmts {
		ast.Walk(st, func(x ast.Node) bool {
			if c, ok := x.(ast.Call); ok {
				for _, f := range fns {
					if c.Fn == f {
						n++
					}
				}
			}
			return true
		})
	}
	return n
}

func c04Typed(ctx *core.Ctx, idx int) core.Result {
	r := core.CaseRng(ctx.Seed, "C04/typed", idx)
	o := gen.DefaultOpts()
	o.MaxDepth = r.Range(2, 4)
	o.MaxStmts = r.Range(2, 6)
	o.Generators = r.Chance(1, 3)
	g := gen.New(r, o)
	stmts := g.Session(r.Range(3, 8))
	opts := diffOpts{DoOut: idx%2 == 0, Stress: stressModes[(idx/2)%len(stressModes)], Residue: true, Globals: true}
	d := runDiff(stmts, opts)
	res := diffCase("C04", stmts, opts, d, nil)
	res.Tags = append(res.Tags, classesOf(g)...)
	return res
}

func init() {
	register(&core.Property{
		ID:          "C04",
		Rule:        "(1) name-pressure sessions: 2..5 names used at once as global, parameter, local initialised from the outer variable (the README's a = a+1 pattern), fresh local, for-variable and captured variable across functions nested up to 3 levels (the third level must not see the first level's variables); every function writes all visible names on entry/middle, snapshots them before and after every call it makes (DIFF marker if a call changed them), updates a captured variable and calls the closure again (sharing until return), and lets closures escape directly, inside an array or inside an array of arrays; escaped closures are dug out and called after deep recursion overwrote the dead frames; (2) typed sessions with local functions, higher-order parameters and returned closures; (3) hof: closure plumbing (gen/hof.go) — sibling closures of one call that hand out or call each other, closures routed through other functions (returned unchanged, picked, wrapped in a capturing closure, yielded by a generator and returned out of the consuming loop, [f][0]) while the defining call is live and its variables change, nested definers, closures yielded by generators whose loop is left early, all called again after the defining call returned and other calls, deep recursion and loops reused the stack and recycled the iterator contexts (half of the sessions are one top-level statement, since contexts are recycled per statement); all with the complete global frame compared with the reference after every statement, REPL/script mode, plain/tight/pregrown allocation. non-trivial = >= 2 functions and >= 2 calls; distinct by session and mode.",
		Assumptions: []string{"names are declared (parameter or first statements) before any loop of the function body, so static and dynamic lookup order cannot differ (DESIGN.md 4.3 rule 1)"},
		Families: []core.Family{
			{Name: "corpus", Count: func(string) int { return len(corpusSessions()) * 2 * len(stressModes) }, Run: func(_ *core.Ctx, idx int) core.Result { return corpusCase("C04", idx, true) }},
			{Name: "scope", Count: countFn(9000, 500000), Run: c04Scope},
			{Name: "typed", Count: countFn(5000, 200000), Run: c04Typed},
			{Name: "hof", Count: countFn(5000, 300000), Run: c04Hof},
			{Name: "params", Count: countFn(1200, 60000), Run: c04Params},
		},
		Floors: []core.Floor{{Key: "statements_compared", Quick: 30000, Thor: 3000000}, {Key: "functions_defined", Quick: 8000, Thor: 800000}, {Key: "escaped_closures_called", Quick: 10000, Thor: 1000000}, {Key: "closure_routes", Quick: 10000, Thor: 600000}, {Key: "tag:scope:", Quick: 2, Thor: 2}, {Key: "nontrivial", Quick: 3000, Thor: 300000}},
	})
}
