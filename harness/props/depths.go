package props

import (
	"fmt"

	"verif/ast"
	"verif/calcrun"
	"verif/core"
	"verif/val"
)

// Depth sweep (C02 "deeploops", C03 "depths", C18 "deeploops"): the same
// loop-running function called from the body of a live (zipped or nested)
// loop through d plain call frames, d ranging over small values, the
// neighbourhoods of 2^8 and 2^9 and of 2^16 and 2^17. The iterator contexts of
// the outer loop stay suspended while loops with the same context ids run d
// frames further down. The result must not depend on d, and must be the value
// computed here from the program's constants. A second shape runs a zipped
// loop on every recursion level (d <= 600: every level keeps two contexts).

func depthCase(prop string, ctx *core.Ctx, idx int) core.Result {
	r := core.CaseRng(ctx.Seed, prop+"/depths", idx)
	var res core.Result
	k1, k2, k3 := int64(r.Range(1, 9)), int64(r.Range(10, 40)), int64(r.Range(1, 5))
	n1, n2 := r.Range(2, 4), r.Range(1, 3)
	arr := func(base int64, n int) ast.Node {
		es := make([]ast.Node, n)
		for i := range es {
			es[i] = il(base * int64(i+1))
		}
		return ast.ArrayLit{Elems: es}
	}
	// zleaf: a zipped loop and a plain loop; value computed below
	leaf := ast.Assign{Name: "zleaf", Value: ast.FuncLit{Body: ast.Block{Stmts: []ast.Node{
		ast.Assign{Name: "s", Value: il(k1)},
		ast.For{Vars: []string{"a", "b"}, Iters: []ast.Node{icall("fromto", il(0), il(int64(n1))), icall("elems", arr(k2, n1))}, Body: ast.Assign{Name: "s", Value: ast.Binary{Op: "+", L: nm("s"), R: ast.Binary{Op: "+", L: nm("a"), R: nm("b")}}}},
		ast.For{Vars: []string{"c"}, Iters: []ast.Node{icall("fromto", il(0), il(int64(n2)))}, Body: ast.Assign{Name: "s", Value: ast.Binary{Op: "+", L: nm("s"), R: ast.Binary{Op: "*", L: nm("c"), R: il(k3)}}}},
		nm("s")}}}}
	leafV := k1
	for i := 0; i < n1; i++ {
		leafV += int64(i) + k2*int64(i+1)
	}
	for c := 0; c < n2; c++ {
		leafV += int64(c) * k3
	}
	down := ast.Assign{Name: "zdown", Value: ast.FuncLit{Params: []string{"d"}, Body: ast.If{Cond: ast.Binary{Op: "<=", L: nm("d"), R: il(0)}, Then: icall("zleaf"), Else: icall("zdown", ast.Binary{Op: "-", L: nm("d"), R: il(1)})}}}
	shape := idx % 3
	var outer ast.Node
	var want func() val.Value
	m1, m2 := r.Range(2, 3), r.Range(1, 2)
	switch shape {
	case 0: // zipped outer loop, then a plain one
		outer = ast.Assign{Name: "zouter", Value: ast.FuncLit{Params: []string{"d"}, Body: ast.Block{Stmts: []ast.Node{
			ast.Assign{Name: "acc", Value: ast.ArrayLit{}},
			ast.For{Vars: []string{"x", "y"}, Iters: []ast.Node{icall("fromto", il(0), il(int64(m1))), icall("elems", ast.StrLit{V: "pqrs"})}, Body: ast.Assign{Name: "acc", Value: ast.Binary{Op: "+", L: nm("acc"), R: ast.ArrayLit{Elems: []ast.Node{ast.Binary{Op: "+", L: icall("zdown", nm("d")), R: nm("x")}}}}}},
			ast.For{Vars: []string{"z"}, Iters: []ast.Node{icall("fromto", il(0), il(int64(m2)))}, Body: ast.Assign{Name: "acc", Value: ast.Binary{Op: "+", L: nm("acc"), R: ast.ArrayLit{Elems: []ast.Node{ast.Binary{Op: "-", L: icall("zdown", nm("d")), R: nm("z")}}}}}},
			nm("acc")}}}}
		want = func() val.Value {
			var a []val.Value
			for x := 0; x < m1; x++ {
				a = append(a, val.IntV(leafV+int64(x)))
			}
			for z := 0; z < m2; z++ {
				a = append(a, val.IntV(leafV-int64(z)))
			}
			return val.ArrV(a)
		}
	case 1: // nested outer loops
		outer = ast.Assign{Name: "zouter", Value: ast.FuncLit{Params: []string{"d"}, Body: ast.Block{Stmts: []ast.Node{
			ast.Assign{Name: "acc", Value: ast.ArrayLit{}},
			ast.For{Vars: []string{"x"}, Iters: []ast.Node{icall("fromto", il(0), il(int64(m1)))}, Body: ast.For{Vars: []string{"y"}, Iters: []ast.Node{icall("fromto", il(0), il(int64(m2)))},
				Body: ast.Assign{Name: "acc", Value: ast.Binary{Op: "+", L: nm("acc"), R: ast.ArrayLit{Elems: []ast.Node{ast.Binary{Op: "+", L: icall("zdown", nm("d")), R: ast.Binary{Op: "*", L: nm("x"), R: nm("y")}}}}}}}},
			nm("acc")}}}}
		want = func() val.Value {
			var a []val.Value
			for x := 0; x < m1; x++ {
				for y := 0; y < m2; y++ {
					a = append(a, val.IntV(leafV+int64(x*y)))
				}
			}
			return val.ArrV(a)
		}
	default: // a zipped loop on every recursion level
		outer = ast.Assign{Name: "zouter", Value: ast.FuncLit{Params: []string{"d"}, Body: ast.If{Cond: ast.Binary{Op: "<=", L: nm("d"), R: il(0)}, Then: icall("zleaf"), Else: ast.Block{Stmts: []ast.Node{
			ast.Assign{Name: "got", Value: il(0)},
			ast.For{Vars: []string{"x", "y"}, Iters: []ast.Node{icall("fromto", il(0), il(int64(m2))), icall("fromto", il(5), il(9))}, Body: ast.Assign{Name: "got", Value: ast.Binary{Op: "+", L: icall("zouter", ast.Binary{Op: "-", L: nm("d"), R: il(1)}), R: ast.Binary{Op: "-", L: nm("x"), R: nm("x")}}}},
			nm("got")}}}}}
		want = func() val.Value { return val.IntV(leafV) }
	}
	var depths []int
	switch shape {
	case 2:
		depths = []int{0, 1, 2, 3, 40, 127, 128, 129, 254, 255, 256, 257, 258, 300, 511, 512, 513, 600}
		if m2 == 2 { // two iterations per level: the call tree has 2^d leaves
			depths = []int{0, 1, 2, 3, 5, 8, 11}
		}
	default:
		small := []int{0, 1, 2, 100, 253, 254, 255, 256, 257, 258, 300, 511, 512, 513, 1000}
		big := []int{65534, 65535, 65536, 65537, 131071, 131072, 131073, 70000, 32767, 32768}
		depths = append(depths, small...)
		depths = append(depths, big[(idx/3)%len(big)], big[(idx/3+3)%len(big)])
	}
	stress := []string{"plain", "pregrown"}[(idx/3)%2]
	in := map[string]any{"program": sessionText([]ast.Node{leaf, down, outer}), "depths": depths, "stress": stress, "expected": val.Debug(want())}
	res.Hash = core.HashString(fmt.Sprint(in))
	calcrun.SetStdin("")
	ses := calcrun.NewSession()
	ses.StepLimit = 400000000
	ses.ForkLimit = 20000 // (a few thousand iterator contexts are forked legitimately; a runaway loop is cut short)
	fail := func(mon, d string) core.Result {
		res.Verdict = core.Violated
		res.Viol = &core.Violation{Monitor: mon, Detail: d, Input: in}
		return res
	}
	run := func(src string) (calcrun.StmtObs, string) {
		o := ses.Exec(src, true)
		if len(o) != 1 || o[0].Parse != nil {
			return calcrun.StmtObs{}, "not executed as one statement"
		}
		if o[0].Panic != nil {
			return o[0], "panic: " + o[0].Panic.Msg + " at " + o[0].Panic.Site
		}
		if o[0].StepLimit || o[0].Hang != "" {
			return o[0], "does not terminate"
		}
		return o[0], ""
	}
	for _, st := range []ast.Node{leaf, down, outer} {
		if _, bad := run(ast.Print(st, nil)); bad != "" {
			return fail("no-abort", "definition: "+bad)
		}
	}
	if stress == "pregrown" {
		if _, bad := run("zdown(3000)"); bad != "" {
			return fail("no-abort", "pregrow: "+bad)
		}
	}
	w := want()
	for _, d := range depths {
		src := fmt.Sprintf("zouter(%d)", d)
		ob, bad := run(src)
		if bad != "" {
			return fail("no-abort", src+": "+bad)
		}
		if ob.Err != "" {
			return fail("depth-independence", fmt.Sprintf("%s failed with a %s error; at depth 0 and by the program's arithmetic the value is %s", src, ob.Err, val.Debug(w)))
		}
		if !val.Same(ob.Value, w) {
			return fail("depth-independence", fmt.Sprintf("%s = %s; the value does not depend on d and is %s", src, val.Debug(ob.Value), val.Debug(w)))
		}
		if r := ob.After.Residue(); r != ob.Before.Residue() {
			return fail("residue", fmt.Sprintf("%s left machine state %v (before %v)", src, r, ob.Before.Residue()))
		}
		res.Add("depth_calls", 1)
		res.SetMax("max_call_depth", d)
		res.Add("vm_steps", ob.Steps)
	}
	res.Tag(fmt.Sprintf("depth-shape:%d", shape))
	res.Verdict = core.Held
	res.Nontrivial = true
	res.Sample = in
	return res
}
