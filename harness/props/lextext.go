package props

import (
	"fmt"
	"os"
	"path/filepath"
	"strings"
	"sync"

	"verif/core"
)

// Text-level inputs shared by the front-end properties (C06, C13, C14).

var corpusOnce sync.Once
var corpusTexts []string

// corpus returns the calc programs shipped with the repository plus the
// hand-written ones under /verif/corpus.
func corpus() []string {
	corpusOnce.Do(func() {
		dirs := []string{"/repo/examples"}
		if d := os.Getenv("VERIF_DIR"); d != "" {
			dirs = append(dirs, filepath.Join(d, "corpus"))
		}
		for _, d := range dirs {
			fs, _ := filepath.Glob(filepath.Join(d, "*.calc"))
			for _, f := range fs {
				if b, err := os.ReadFile(f); err == nil {
					corpusTexts = append(corpusTexts, string(b))
				}
			}
		}
		corpusTexts = append(corpusTexts, builtinCorpus...)
	})
	return corpusTexts
}

var builtinCorpus = []string{
	// errors the parser raises itself (not through a failed token match), ending exactly at the end of the input
	"for a, b <- fromto(0, 3) a",
	"f = () -> for p, q, r <- elems(\"ab\"), fromto(0, 2) write(p)",
	"for i <- fromto(0, 3), elems(\"xy\") i\n",
	"all = (iter, f) -> {\n  for e <- iter() if !f(e) return false\n  true\n}\n",
	"isprime = (n) -> {\n  if n < 2 return false\n  all(() -> fromto(2, n/2+1), (i) -> n % i != 0)\n}\nisprime(13)\n",
	"funs = [ [\"+\", (a, b) -> a+b ], [\"-\", (a, b) -> a - b ] ]\n",
	"#[[1,1,1]][0]\n\"apple\"[1:3]\n\"\\\"\"\n",
	"fromto = (n, m) -> {\n    while n < m {\n        yield n\n        n = n + 1\n    }\n}\n",
	"for i <- fromto(1,3) {\n  for j <- elems(\"ab\") {\n    write(toa(i) + \" \" + j + \"\\n\")\n  }\n}\n",
	"for i, j <- fromto(1, 3), elems(\"ab\") write(toa(i) + \" \" + j + \"\\n\")\n",
	"f = (n) -> {\n    a = a+1\n}\nf(1)\na\n",
	"f = (x) -> {\n  (y) -> {\n    x = x\n    (z) -> x + y + z\n  }\n}\n",
	"f = (n) -> if n <= 0 0 else n + f(n-1)\nf(5)\n",
	"if true {\n   1\n} else {\n   2\n}\n",
	"a = [1, 2,\n 3.5, true] ; trailing comment\n~(1<<1) & 7 || 3 >= 2 != false\n",
}

// genLexText builds a string over the language's alphabet. Most are accepted.
func genLexText(r *core.Rng) string {
	var sb strings.Builder
	n := r.Range(0, 30)
	piece := func() {
		switch r.Pick(10, 5, 12, 4, 8, 10, 8, 8, 10, 3, 2) {
		case 0:
			fmt.Fprintf(&sb, "%d", r.Intn(100000))
		case 1:
			fmt.Fprintf(&sb, "%d.%d", r.Intn(1000), r.Intn(1000))
		case 2:
			m := r.Range(1, 6)
			for i := 0; i < m; i++ {
				sb.WriteByte(byte('a' + r.Intn(26)))
			}
		case 3:
			sb.WriteString([]string{"if", "else", "while", "for", "return", "yield", "true", "false"}[r.Intn(8)])
		case 4: // string literal with escapes, newlines, specials
			sb.WriteByte('"')
			m := r.Range(0, 8)
			for i := 0; i < m; i++ {
				switch r.Intn(12) {
				case 0:
					sb.WriteString("\\\"")
				case 1:
					sb.WriteString("\\n")
				case 2:
					sb.WriteString("\n")
				case 3:
					sb.WriteString([]string{"é", "日本", "{", "]", ";", "\\\\", "\\a"}[r.Intn(7)])
				default:
					sb.WriteByte(byte('a' + r.Intn(26)))
				}
			}
			sb.WriteByte('"')
		case 5:
			m := r.Range(1, 3)
			for i := 0; i < m; i++ {
				sb.WriteByte(stickySet[r.Intn(len(stickySet))])
			}
		case 6:
			sb.WriteByte(nonStickySet[r.Intn(len(nonStickySet))])
		case 7:
			sb.WriteString("\n")
		case 8:
			sb.WriteString([]string{" ", "  ", "\t"}[r.Intn(3)])
		case 9:
			sb.WriteString("; comment " + []string{"x", "\"", "{[", "é"}[r.Intn(4)] + "\n")
		case 10: // rarely: something outside the alphabet / suspicious
			sb.WriteString([]string{"A", "@", "\r", "_", ".", "'", "$", "1.2.3", "\x00", "\xff"}[r.Intn(10)])
		}
	}
	for i := 0; i < n; i++ {
		piece()
		if r.Chance(1, 2) {
			sb.WriteByte(' ')
		}
	}
	if r.Chance(1, 2) {
		sb.WriteByte('\n')
	}
	return sb.String()
}

func mutateText(r *core.Rng, s string) string {
	if len(s) == 0 {
		return s
	}
	switch r.Intn(6) {
	case 0:
		return s[:r.Intn(len(s)+1)]
	case 1:
		i := r.Intn(len(s))
		j := i + r.Intn(len(s)-i+1)
		return s[:i] + s[j:]
	case 2:
		i := r.Intn(len(s))
		j := i + r.Intn(min(len(s)-i, 12)+1)
		return s[:j] + s[i:j] + s[j:]
	case 3:
		i := r.Intn(len(s))
		b := []byte(s)
		b[i] = " \t\n;\"\\(){}[],:+-*/=<>!&|#%~0a.A@\x00\xff"[r.Intn(34)]
		return string(b)
	case 4:
		i := r.Intn(len(s) + 1)
		return s[:i] + genLexText(r) + s[i:]
	default:
		return s
	}
}

const stickySet = "+*/=<>!-&|#%~"
const nonStickySet = "(){}[],:"
