//go:build !skip_c10

package props

import (
	"fmt"
	"strings"

	"github.com/paulsonkoly/calc/types/bytecode"
	"github.com/paulsonkoly/calc/types/value"

	"verif/ast"
	"verif/calcrun"
	"verif/core"
	"verif/gen"
	"verif/val"
)

// C10 — values are immutable.
// (1) API level: random operation histories on the real value package
//     (array/string concatenation, indexing, slicing, NewArray); an
//     independent deep copy of EVERY value ever produced is kept and all of
//     them are re-compared after every operation; results are also checked
//     against the pure model.
// (2) language level: array/string sessions over values that share structure,
//     with the complete global frame compared with the reference after every
//     statement (so any earlier result that changes is seen).

func c10API(ctx *core.Ctx, idx int) core.Result {
	r := core.CaseRng(ctx.Seed, "C10/api", idx)
	var res core.Result
	type pair struct {
		real   value.Type
		shadow val.Value
		how    string
	}
	var live []pair
	var ops []string
	add := func(v value.Type, s val.Value, how string) {
		ops = append(ops, how)
		if len(live) < 64 {
			live = append(live, pair{v, s, how})
		} else {
			live[r.Intn(len(live))] = pair{v, s, how}
		}
	}
	// seeds
	for i := 0; i < 4; i++ {
		n := r.Range(0, 6)
		a := make([]val.Value, n)
		for j := range a {
			if r.Chance(1, 6) {
				// arrays can hold the absent value ([u] with an undefined u): a nil element is an element
				a[j] = val.NilV
			} else if r.Chance(1, 4) {
				a[j] = val.StrV(fmt.Sprintf("e%d", r.Intn(50)))
			} else if r.Chance(1, 4) {
				a[j] = val.FloatV(float64(r.Intn(6)))
			} else if r.Chance(1, 3) {
				a[j] = val.IntV(int64(r.Intn(6)))
			} else {
				a[j] = val.IntV(int64(r.Intn(1000)))
			}
		}
		v := val.ArrV(a)
		add(calcrun.ToCalc(v), v, fmt.Sprintf("new%v", val.Render(v)))
	}
	add(value.NewString("hello world"), val.StrV("hello world"), "str")
	add(value.NewString(""), val.StrV(""), "empty-str")
	// a long string and short distinct tails: concatenation results of 32 bytes and more, extended more than once
	add(value.NewString("the quick brown fox jumps over the lazy dog"), val.StrV("the quick brown fox jumps over the lazy dog"), "long-str")
	add(value.NewString("-first"), val.StrV("-first"), "tail1")
	add(value.NewString("-other"), val.StrV("-other"), "tail2")
	fail := func(d string) core.Result {
		t := ops
		if len(t) > 40 {
			t = t[len(t)-40:]
		}
		res.Verdict = core.Violated
		res.Viol = &core.Violation{Monitor: "immutability", Detail: d, Input: map[string]any{"ops_tail": strings.Join(t, " ; ")}}
		return res
	}
	pick := func(k val.Kind) (pair, bool) {
		var c []pair
		for _, p := range live {
			if p.shadow.K == k {
				c = append(c, p)
			}
		}
		if len(c) == 0 {
			return pair{}, false
		}
		return c[r.Intn(len(c))], true
	}
	nops := r.Range(20, 150)
	var pan any
	func() {
		defer func() { pan = recover() }()
		for step := 0; step < nops; step++ {
			k := val.Arr
			if r.Chance(1, 4) {
				k = val.Str
			}
			a, ok := pick(k)
			if !ok {
				continue
			}
			n := len(a.shadow.A)
			if k == val.Str {
				n = len(a.shadow.S)
			}
			var got value.Type
			var err error
			var want val.Outcome
			how := ""
			switch r.Intn(6) {
			case 5: // comparison (reads both operands, must write neither)
				b, _ := pick(k)
				opc, ops := bytecode.EQ, "=="
				if r.Bool() {
					opc, ops = bytecode.NE, "!="
				}
				got, err = a.real.Eq(opc, b.real)
				want = val.Binary(ops, a.shadow, b.shadow)
				how = fmt.Sprintf("(%s)%s(%s)", a.how, ops, b.how)
			case 0, 1: // concatenation
				b, _ := pick(k)
				if len(a.shadow.S)+len(b.shadow.S) > 1<<16 || len(a.shadow.A)+len(b.shadow.A) > 1<<12 {
					continue // (repeated self-concatenation doubles; keep the histories small)
				}
				got, err = a.real.Arith(bytecode.ADD, b.real)
				want = val.Binary("+", a.shadow, b.shadow)
				how = fmt.Sprintf("(%s)+(%s)", a.how, b.how)
			case 2: // slice
				i := r.Range(0, n)
				j := r.Range(i, n)
				got, err = a.real.Index(value.NewInt(i), value.NewInt(j))
				want = val.Slice(a.shadow, val.IntV(int64(i)), val.IntV(int64(j)))
				how = fmt.Sprintf("(%s)[%d:%d]", a.how, i, j)
			case 3: // element
				if n == 0 {
					continue
				}
				i := r.Intn(n)
				got, err = a.real.Index(value.NewInt(i))
				want = val.IndexAt(a.shadow, val.IntV(int64(i)))
				how = fmt.Sprintf("(%s)[%d]", a.how, i)
			default: // wrap existing values into a new array (NewArray over a fresh Go slice)
				m := r.Range(0, 3)
				sl := make([]value.Type, 0, m+r.Intn(3))
				sh := make([]val.Value, 0, m)
				for q := 0; q < m; q++ {
					if r.Chance(1, 8) {
						sl = append(sl, calcrun.ToCalc(val.NilV))
						sh = append(sh, val.NilV)
						continue
					}
					p := live[r.Intn(len(live))]
					sl = append(sl, p.real)
					sh = append(sh, p.shadow)
				}
				got, want = value.NewArray(sl), val.Outcome{Kind: val.OVal, V: val.ArrV(sh)}
				how = fmt.Sprintf("array-of-%d", m)
			}
			if len(how) > 60 {
				how = how[:57] + "..."
			}
			if ok, d := outcomeOK(want, got, err); !ok {
				res = fail(fmt.Sprintf("operation %s: %s", how, d))
				return
			}
			res.Add("value_ops", 1)
			if err == nil {
				add(got, calcrun.FromCalc(got), how)
			}
			// every value that already exists must still be what it was
			for _, p := range live {
				if now := calcrun.FromCalc(p.real); !val.Same(now, p.shadow) {
					res = fail(fmt.Sprintf("after %s the earlier value %q changed from %s to %s", how, p.how, trunc(val.Debug(p.shadow), 200), trunc(val.Debug(now), 200)))
					return
				}
				res.Add("recomparisons", 1)
			}
		}
	}()
	if pan != nil {
		return fail(fmt.Sprintf("panic: %v", pan))
	}
	if res.Verdict == core.Violated {
		return res
	}
	res.Verdict = core.Held
	res.Hash = core.HashString(strings.Join(ops, ";"))
	res.Nontrivial = res.Count["value_ops"] >= 10
	t := ops
	if len(t) > 12 {
		t = t[:12]
	}
	res.Sample = map[string]any{"family": "api", "ops_head": t}
	return res
}

// c10Program: array/string sessions with structure sharing.
func c10Program(r *core.Rng) []ast.Node {
	arr := func(vs ...int) ast.Node {
		es := make([]ast.Node, len(vs))
		for i, v := range vs {
			es[i] = il(int64(v))
		}
		return ast.ArrayLit{Elems: es}
	}
	var ss []ast.Node
	ss = append(ss,
		ast.Assign{Name: "xa", Value: arr(1, 2, 3, 4, 5, 6)},
		ast.Assign{Name: "xs", Value: ast.StrLit{V: "abcdefgh"}},
		ast.Assign{Name: "xk", Value: il(int64(r.Intn(50)))},
		// a long string that is itself the result of a concatenation
		ast.Assign{Name: "xl", Value: ast.Binary{Op: "+", L: ast.StrLit{V: "0123456789abcdef"}, R: ast.StrLit{V: "ghijklmnopqrstuvwxyzABCDEF"}}},
		// a literal with a constant prefix and a computed tail (constant prefix lives in the data segment)
		ast.Assign{Name: "mklit", Value: ast.FuncLit{Params: []string{"v"}, Body: ast.ArrayLit{Elems: []ast.Node{il(7), il(8), nm("v"), il(9)}}}},
		ast.Assign{Name: "mkconst", Value: ast.FuncLit{Body: arr(10, 20, 30)}},
		ast.Assign{Name: "mkcomp", Value: ast.FuncLit{Params: []string{"v"}, Body: ast.ArrayLit{Elems: []ast.Node{il(1), il(2), ast.Binary{Op: "*", L: nm("v"), R: il(10)}}}}},
		ast.Assign{Name: "mkcall", Value: ast.FuncLit{Params: []string{"v"}, Body: ast.ArrayLit{Elems: []ast.Node{il(5), icall("zsame", nm("v")), il(6)}}}},
		ast.Assign{Name: "mkstr", Value: ast.FuncLit{Body: ast.StrLit{V: "lit"}}},
		// recursion that builds on a literal each level
		ast.Assign{Name: "rec", Value: ast.FuncLit{Params: []string{"n"}, Body: ast.If{Cond: ast.Binary{Op: "<=", L: nm("n"), R: il(0)}, Then: arr(0), Else: ast.Binary{Op: "+", L: ast.Slice{X: icall("rec", ast.Binary{Op: "-", L: nm("n"), R: il(1)}), I: il(0), J: il(1)}, R: ast.ArrayLit{Elems: []ast.Node{nm("n")}}}}}},
		// generator capturing an array and re-yielding slices of it
		ast.Assign{Name: "slices", Value: ast.FuncLit{Params: []string{"a"}, Body: ast.For{Vars: []string{"i"}, Iters: []ast.Node{icall("indices", nm("a"))}, Body: ast.Yield{X: ast.Slice{X: nm("a"), I: il(0), J: nm("i")}}}}},
		ast.Assign{Name: "cl", Value: ast.FuncLit{Params: []string{"a"}, Body: ast.FuncLit{Params: []string{"t"}, Body: ast.Binary{Op: "+", L: nm("a"), R: ast.ArrayLit{Elems: []ast.Node{nm("t")}}}}}},
		ast.Assign{Name: "clx", Value: icall("cl", ast.Slice{X: nm("xa"), I: il(1), J: il(3)})},
		// literals with several computed elements where a later element re-enters the same literal
		ast.Assign{Name: "lst", Value: ast.FuncLit{Params: []string{"n"}, Body: ast.If{Cond: ast.Binary{Op: "<=", L: nm("n"), R: il(0)}, Then: arr(0, 0),
			Else: ast.ArrayLit{Elems: []ast.Node{nm("n"), icall("lst", ast.Binary{Op: "-", L: nm("n"), R: il(1)})}}}}},
		ast.Assign{Name: "lstk", Value: ast.FuncLit{Params: []string{"n"}, Body: ast.If{Cond: ast.Binary{Op: "<=", L: nm("n"), R: il(0)}, Then: arr(7, 0, 0, 9),
			Else: ast.ArrayLit{Elems: []ast.Node{il(7), nm("n"), icall("lstk", ast.Binary{Op: "-", L: nm("n"), R: il(1)}), ast.Binary{Op: "*", L: nm("n"), R: il(2)}, il(9)}}}}},
		// a nested literal (its rows live in the data segment), an identity function and a wrapping function
		ast.Assign{Name: "xm", Value: ast.ArrayLit{Elems: []ast.Node{arr(1, 2, 3), arr(4, 5, 6, 7)}}},
		ast.Assign{Name: "zsame", Value: ast.FuncLit{Params: []string{"p"}, Body: nm("p")}},
		ast.Assign{Name: "zwrap", Value: ast.FuncLit{Params: []string{"p"}, Body: ast.ArrayLit{Elems: []ast.Node{nm("p"), il(0)}}}},
		// a function that extends its parameter twice and keeps both results
		ast.Assign{Name: "ztwice", Value: ast.FuncLit{Params: []string{"p"}, Body: ast.Block{Stmts: []ast.Node{
			ast.Assign{Name: "q", Value: ast.Binary{Op: "+", L: nm("p"), R: ast.ArrayLit{Elems: []ast.Node{il(1)}}}},
			ast.Assign{Name: "w", Value: ast.Binary{Op: "+", L: nm("p"), R: ast.ArrayLit{Elems: []ast.Node{nm("xk")}}}},
			ast.ArrayLit{Elems: []ast.Node{nm("q"), nm("w"), nm("p")}}}}}},
		ast.Assign{Name: "mkthree", Value: ast.FuncLit{Params: []string{"v"}, Body: ast.ArrayLit{Elems: []ast.Node{nm("v"), ast.Binary{Op: "+", L: nm("v"), R: il(1)}, ast.Binary{Op: "+", L: nm("v"), R: il(2)}}}}},
		// a callee that uses the temp register itself
		ast.Assign{Name: "ztmp", Value: ast.FuncLit{Params: []string{"v"}, Body: ast.Binary{Op: "+", L: ast.Binary{Op: "+", L: nm("v"), R: nm("v")}, R: nm("v")}}},
		// two generators of one function suspended inside the same literal
		ast.Assign{Name: "pairs", Value: ast.FuncLit{Params: []string{"n"}, Body: ast.For{Vars: []string{"i"}, Iters: []ast.Node{icall("fromto", il(0), nm("n"))}, Body: ast.Yield{X: ast.ArrayLit{Elems: []ast.Node{nm("i"), ast.Binary{Op: "+", L: nm("i"), R: il(1)}, nm("n")}}}}}},
	)
	vars := []string{"xa"}
	svars := []string{"xs"}
	lvars := []string{"xl"}
	fresh := 0
	newVar := func(p string) string {
		fresh++
		return fmt.Sprintf("%s%c%c", p, 'a'+fresh/26, 'a'+fresh%26)
	}
	for k := r.Range(6, 16); k > 0; k-- {
		a := nm(vars[r.Intn(len(vars))])
		b := nm(vars[r.Intn(len(vars))])
		switch r.Intn(20) {
		case 19: // a literal (computed elements, so built by the VM, possibly with spare capacity) handed over without ever being stored in a variable
			v := newVar("ya")
			n := r.Range(1, 6)
			es := make([]ast.Node, n)
			for i := range es {
				es[i] = ast.Binary{Op: "+", L: nm("xk"), R: il(int64(i))}
			}
			var arg ast.Node = ast.ArrayLit{Elems: es}
			switch r.Intn(4) {
			case 0:
				arg = icall("mkthree", il(int64(r.Intn(50))))
			case 1:
				arg = ast.Index{X: ast.ArrayLit{Elems: []ast.Node{arg, il(0)}}, I: il(0)}
			case 2:
				arg = icall("zsame", arg)
			}
			ss = append(ss, ast.Assign{Name: v, Value: icall("ztwice", arg)})
			vars = append(vars, v)
		case 16, 17, 18: // slices and concatenations of values that are only ever on the stack: elements of nested arrays, results of calls returning an existing array
			v := newVar("ya")
			lo := il(int64(r.Intn(2)))
			var src ast.Node
			switch r.Intn(5) {
			case 0:
				src = ast.Index{X: nm("xm"), I: il(int64(r.Intn(2)))}
			case 1:
				src = icall("zsame", a)
			case 2:
				src = ast.Index{X: ast.ArrayLit{Elems: []ast.Node{a, b}}, I: il(int64(r.Intn(2)))}
			case 3:
				src = ast.Index{X: icall("zwrap", a), I: il(0)}
			default:
				src = icall("zsame", ast.Index{X: nm("xm"), I: il(1)})
			}
			if r.Chance(1, 3) {
				// the right operand is itself a sum (the sum on the left is then not the instruction before)
				ss = append(ss, ast.Assign{Name: v, Value: ast.Binary{Op: "+", L: ast.Slice{X: a, I: il(0), J: il(1)}, R: ast.Binary{Op: "+", L: arr(80 + r.Intn(9)), R: arr(90 + r.Intn(9))}}})
			} else if r.Chance(1, 3) {
				// (the appended one-element literal is a constant or computed)
				var one ast.Node = arr(r.Intn(9))
				if r.Bool() {
					one = ast.ArrayLit{Elems: []ast.Node{ast.Binary{Op: "+", L: nm("xk"), R: il(int64(r.Intn(9)))}}}
				}
				if r.Chance(1, 3) {
					src = ast.Slice{X: a, I: il(0), J: ast.Binary{Op: "/", L: ast.Unary{Op: "#", X: a}, R: il(2)}}
				}
				ss = append(ss, ast.Assign{Name: v, Value: ast.Binary{Op: "+", L: src, R: one}})
			} else {
				ss = append(ss, ast.Assign{Name: v, Value: ast.Slice{X: src, I: lo, J: ast.Binary{Op: "-", L: ast.Unary{Op: "#", X: src}, R: il(int64(r.Intn(2)))}}})
			}
			vars = append(vars, v)
		case 14, 15: // + chains ending in a literal whose call comes after computed elements (the chain's left part waits in the temp register)
			v := newVar("ya")
			call3 := icall("ztmp", ast.Binary{Op: "+", L: nm("xk"), R: il(int64(r.Intn(5)))})
			var lit ast.Node
			switch r.Intn(4) {
			case 0:
				lit = ast.ArrayLit{Elems: []ast.Node{nm("xk"), call3}}
			case 1:
				lit = ast.ArrayLit{Elems: []ast.Node{ast.StrLit{V: "x"}, ast.Index{X: a, I: il(0)}, call3}}
			case 2:
				lit = ast.ArrayLit{Elems: []ast.Node{ast.Unary{Op: "#", X: a}, ast.Binary{Op: "*", L: nm("xk"), R: il(2)}, call3, il(4)}}
			default:
				lit = ast.ArrayLit{Elems: []ast.Node{il(1), ast.Slice{X: a, I: il(0), J: il(1)}, ast.ArrayLit{Elems: []ast.Node{nm("xk"), call3}}}}
			}
			if r.Bool() {
				ss = append(ss, ast.Assign{Name: v, Value: ast.Binary{Op: "+", L: ast.Binary{Op: "+", L: a, R: b}, R: lit}})
			} else {
				ss = append(ss, ast.Assign{Name: v, Value: ast.Binary{Op: "+", L: ast.Binary{Op: "+", L: ast.Slice{X: a, I: il(0), J: il(1)}, R: arr(r.Intn(9))}, R: lit}})
			}
			vars = append(vars, v)
		case 0: // slice of a (possibly sliced) array: index bounds from its length
			v := newVar("ya")
			ss = append(ss, ast.Assign{Name: v, Value: ast.Slice{X: a, I: il(int64(r.Intn(2))), J: ast.Binary{Op: "-", L: ast.Unary{Op: "#", X: a}, R: il(int64(r.Intn(2)))}}})
			vars = append(vars, v)
		case 1: // concatenation whose left operand is a slice with spare capacity
			v := newVar("ya")
			ss = append(ss, ast.Assign{Name: v, Value: ast.Binary{Op: "+", L: ast.Slice{X: a, I: il(0), J: ast.Binary{Op: "/", L: ast.Unary{Op: "#", X: a}, R: il(2)}}, R: b}})
			vars = append(vars, v)
		case 2:
			v := newVar("ya")
			ss = append(ss, ast.Assign{Name: v, Value: ast.Binary{Op: "+", L: a, R: ast.ArrayLit{Elems: []ast.Node{nm("xk"), il(int64(r.Intn(9)))}}}})
			vars = append(vars, v)
		case 3: // literal functions called repeatedly, results extended by the caller
			v := newVar("ya")
			ss = append(ss, ast.Assign{Name: v, Value: ast.Binary{Op: "+", L: icall([]string{"mkconst", "mkconst", "rec"}[r.Intn(3)], []ast.Node{}...), R: arr(r.Intn(9))}})
			if c := ss[len(ss)-1].(ast.Assign).Value.(ast.Binary).L.(ast.Call); c.Fn == "rec" {
				ss[len(ss)-1] = ast.Assign{Name: v, Value: ast.Binary{Op: "+", L: icall("rec", il(int64(r.Range(0, 5)))), R: arr(r.Intn(9))}}
			}
			vars = append(vars, v)
		case 4:
			v := newVar("ya")
			ss = append(ss, ast.Assign{Name: v, Value: icall([]string{"mklit", "mkcomp", "mkcall", "mkcomp"}[r.Intn(4)], il(int64(r.Intn(100))))})
			vars = append(vars, v)
		case 5: // loop extending an accumulator by literals and slices, 3+ iterations
			v := newVar("ya")
			ss = append(ss, ast.Block{Stmts: []ast.Node{ast.Assign{Name: v, Value: ast.ArrayLit{}},
				ast.For{Vars: []string{"zi"}, Iters: []ast.Node{icall("fromto", il(0), il(int64(r.Range(3, 5))))}, Body: ast.Assign{Name: v, Value: ast.Binary{Op: "+", L: nm(v), R: ast.Binary{Op: "+", L: ast.ArrayLit{Elems: []ast.Node{il(1), nm("zi")}}, R: ast.Slice{X: a, I: il(0), J: il(1)}}}}},
				nm(v)}})
			vars = append(vars, v)
		case 6: // generator of growing prefixes collected into an array of arrays
			v := newVar("ya")
			ss = append(ss, ast.Block{Stmts: []ast.Node{ast.Assign{Name: v, Value: ast.ArrayLit{}},
				ast.For{Vars: []string{"zp"}, Iters: []ast.Node{icall("slices", a)}, Body: ast.Assign{Name: v, Value: ast.Binary{Op: "+", L: nm(v), R: ast.ArrayLit{Elems: []ast.Node{nm("zp")}}}}},
				ast.Unary{Op: "#", X: nm(v)}}})
		case 7: // closure holding a slice
			v := newVar("ya")
			ss = append(ss, ast.Assign{Name: v, Value: icall("clx", il(int64(r.Intn(100))))})
			vars = append(vars, v)
		case 8: // strings
			v := newVar("ys")
			s := nm(svars[r.Intn(len(svars))])
			ss = append(ss, ast.Assign{Name: v, Value: ast.Binary{Op: "+", L: ast.Slice{X: s, I: il(0), J: ast.Binary{Op: "/", L: ast.Unary{Op: "#", X: s}, R: il(2)}}, R: ast.Binary{Op: "+", L: icall("mkstr"), R: ast.Index{X: nm("xs"), I: il(int64(r.Intn(8)))}}}})
			svars = append(svars, v)
		case 9: // passing to a function that "modifies" its parameter
			ss = append(ss, ast.Assign{Name: "zmod", Value: ast.FuncLit{Params: []string{"p"}, Body: ast.Block{Stmts: []ast.Node{ast.Assign{Name: "p", Value: ast.Binary{Op: "+", L: nm("p"), R: arr(99)}}, ast.Assign{Name: "p", Value: ast.Slice{X: nm("p"), I: il(1), J: ast.Unary{Op: "#", X: nm("p")}}}, nm("p")}}}},
				icall("zmod", a))
		case 10: // iterate and index
			ss = append(ss, ast.For{Vars: []string{"ze"}, Iters: []ast.Node{icall("elems", a)}, Body: ast.Binary{Op: "+", L: ast.ArrayLit{Elems: []ast.Node{nm("ze")}}, R: a}})
		case 12: // + chains that go through the temp register, leftmost operand with spare capacity
			v := newVar("ya")
			k := ast.Binary{Op: "/", L: ast.Unary{Op: "#", X: a}, R: il(2)}
			switch r.Intn(4) {
			case 0:
				ss = append(ss, ast.Assign{Name: v, Value: ast.Binary{Op: "+", L: ast.Binary{Op: "+", L: ast.Slice{X: a, I: il(0), J: k}, R: arr(90 + r.Intn(9))}, R: arr(80 + r.Intn(9))}})
			case 1:
				ss = append(ss, ast.Assign{Name: v, Value: ast.Binary{Op: "+", L: ast.Binary{Op: "+", L: ast.Binary{Op: "+", L: a, R: arr(71)}, R: arr(72)}, R: arr(73)}})
			case 2:
				ss = append(ss, ast.Unary{Op: "#", X: ast.Binary{Op: "+", L: ast.Slice{X: a, I: il(0), J: k}, R: arr(60 + r.Intn(9))}})
				ss = append(ss, ast.Assign{Name: v, Value: ast.Binary{Op: "+", L: ast.Binary{Op: "+", L: icall("mkconst"), R: arr(5)}, R: arr(6)}})
			default:
				ss = append(ss, ast.Binary{Op: "==", L: ast.Binary{Op: "+", L: ast.Slice{X: a, I: il(0), J: il(0)}, R: arr(50 + r.Intn(9))}, R: ast.Binary{Op: "+", L: ast.Slice{X: b, I: il(0), J: il(0)}, R: arr(40 + r.Intn(9))}})
				ss = append(ss, ast.Assign{Name: v, Value: ast.Binary{Op: "+", L: ast.Slice{X: a, I: il(0), J: il(0)}, R: arr(30 + r.Intn(9))}})
			}
			vars = append(vars, v)
		case 11: // re-entered literals
			v := newVar("ya")
			switch r.Intn(3) {
			case 0:
				ss = append(ss, ast.Assign{Name: v, Value: icall("lst", il(int64(r.Range(1, 5))))})
			case 1:
				ss = append(ss, ast.Assign{Name: v, Value: icall("lstk", il(int64(r.Range(1, 5))))})
			default:
				ss = append(ss, ast.Block{Stmts: []ast.Node{ast.Assign{Name: v, Value: ast.ArrayLit{}},
					ast.For{Vars: []string{"zp", "zq"}, Iters: []ast.Node{icall("pairs", il(3)), icall("pairs", il(4))}, Body: ast.Assign{Name: v, Value: ast.Binary{Op: "+", L: nm(v), R: ast.ArrayLit{Elems: []ast.Node{nm("zp"), nm("zq")}}}}},
					nm(v)}})
			}
			vars = append(vars, v)
		case 13: // one long string extended twice with different tails, the results kept
			s := nm(lvars[r.Intn(len(lvars))])
			v1, v2 := newVar("yl"), newVar("yl")
			t1 := []ast.Node{ast.StrLit{V: fmt.Sprintf("-first%d", r.Intn(9))}, icall("toa", nm("xk")), ast.Slice{X: nm("xs"), I: il(0), J: il(int64(r.Range(1, 8)))}}[r.Intn(3)]
			t2 := []ast.Node{ast.StrLit{V: fmt.Sprintf("-other%d", r.Intn(9))}, icall("mkstr"), ast.Index{X: nm("xs"), I: il(int64(r.Intn(8)))}}[r.Intn(3)]
			ss = append(ss, ast.Assign{Name: v1, Value: ast.Binary{Op: "+", L: s, R: t1}}, ast.Assign{Name: v2, Value: ast.Binary{Op: "+", L: s, R: t2}})
			lvars = append(lvars, v1, v2)
		default: // literals again: must evaluate to the same value as the first time
			ss = append(ss, ast.ArrayLit{Elems: []ast.Node{icall("mkconst"), icall("mklit", il(1)), icall("mkstr"), icall("rec", il(2)), arr(1, 2, 3)}})
		}
	}
	return ss
}

func c10Lang(ctx *core.Ctx, idx int) core.Result {
	r := core.CaseRng(ctx.Seed, "C10/lang", idx)
	stmts := c10Program(r)
	opts := diffOpts{DoOut: idx%2 == 0, Stress: stressModes[(idx/2)%len(stressModes)], Globals: true, Residue: true}
	d := runDiff(stmts, opts)
	res := diffCase("C10", stmts, opts, d, nil)
	res.Nontrivial = d.Verdict == core.Held && d.Executed >= 10
	return res
}

func c10Typed(ctx *core.Ctx, idx int) core.Result {
	r := core.CaseRng(ctx.Seed, "C10/typed", idx)
	o := gen.DefaultOpts()
	o.MaxDepth = r.Range(2, 4)
	g := gen.New(r, o)
	stmts := g.Session(r.Range(4, 9))
	opts := diffOpts{DoOut: idx%2 == 0, Stress: "plain", Globals: true}
	d := runDiff(stmts, opts)
	return diffCase("C10", stmts, opts, d, nil)
}

func init() {
	register(&core.Property{
		ID:          "C10",
		Rule:        "(1) api: histories of 20..150 operations on the real value package — concatenation of arrays/strings, slicing at every pair of bounds, element access, NewArray over fresh Go slices holding existing values — keeping up to 64 live values; after every operation the result is checked against the model and every live value is re-read and compared with the deep copy taken when it was produced; (2) lang: sessions of 16..26 statements over arrays/strings that share structure: slices of slices, concatenation whose left operand is a slice with spare capacity, partially constant array literals, literal-returning functions called repeatedly and extended by the caller, recursion building on slices of its own result, generators yielding growing prefixes, closures holding slices, functions that rebuild their parameter, loops of 3..5 iterations over literals; the complete global frame is compared with the reference after every statement; (3) typed sessions with the same global-frame monitor; (4) closures: arrays and strings captured by sibling closures of one call and by closures a generator yields, the closures routed through other functions (returned unchanged, picked, wrapped, yielded and returned out of the consuming loop) and called again after other calls, deep recursion and loops reused the stack and the iterator contexts (the C04 hof generator with array/string data). non-trivial = >= 10 operations / >= 10 statements compared.",
		Assumptions: []string{"the VM's ARR instruction is only reachable through programs and is covered at language level"},
		Families: []core.Family{
			{Name: "api", Count: countFn(20000, 1500000), Run: c10API},
			{Name: "lang", Count: countFn(3000, 200000), Run: c10Lang},
			{Name: "typed", Count: countFn(1500, 100000), Run: c10Typed},
			{Name: "closures", Count: countFn(3000, 200000), Run: func(ctx *core.Ctx, idx int) core.Result { return hofCase("C10", ctx, idx, 1+(idx/6)%2) }},
		},
		Sanitize: []string{"api", "lang"},
		Floors:   []core.Floor{{Key: "value_ops", Quick: 1000000, Thor: 80000000}, {Key: "recomparisons", Quick: 30000000, Thor: 2000000000}, {Key: "statements_compared", Quick: 50000, Thor: 3000000}, {Key: "nontrivial", Quick: 15000, Thor: 1000000}},
	})
}
