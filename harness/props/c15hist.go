package props

import (
	"fmt"
	"strings"

	"github.com/paulsonkoly/calc/parser"
	"github.com/paulsonkoly/calc/types/node"

	"verif/calcrun"
	"verif/core"
)

// History level of C15: sessions and programs that cross the addressing
// limits of an instruction operand (2^15 data-segment entries, jump distances,
// local and argument counts). Oracle: every statement either prints exactly
// what it computes or is refused with a reported compiler error; the process
// stays alive, nothing is ever computed with wrapped addresses, and a refusal
// leaves the code and data segments as they were.

const refusal = "Compiler: "

func c15History(ctx *core.Ctx, idx int) core.Result {
	r := core.CaseRng(ctx.Seed, "C15/history", idx)
	var res core.Result
	kind := idx % 4
	calcrun.SetStdin("")
	ses := calcrun.NewSession()
	ses.Exec("0", false)
	feed := func(src string, doOut bool) (out string, pan any) {
		func() {
			defer func() { pan = recover() }()
			out = calcrun.Capture(func() { node.VerifProcessInput(src, parser.Type{}, ses.VM, doOut) })
		}()
		return
	}
	in := map[string]any{}
	fail := func(d string) core.Result {
		res.Verdict = core.Violated
		res.Viol = &core.Violation{Monitor: "addressing-limits", Detail: d, Input: in}
		return res
	}
	worked, refused := 0, 0
	check := func(src, want string, doOut bool) string {
		before := ses.State()
		out, pan := feed(src, doOut)
		if pan != nil {
			return fmt.Sprintf("statement %q aborted the interpreter: %v", trunc(src, 80), pan)
		}
		switch {
		case strings.HasPrefix(out, refusal):
			refused++
			after := ses.State()
			if after.CS != before.CS || after.DS != before.DS {
				return fmt.Sprintf("a refused statement changed the segments: CS %d->%d DS %d->%d", before.CS, after.CS, before.DS, after.DS)
			}
		case out == want:
			worked++
		default:
			return fmt.Sprintf("statement %q printed %q, it computes %q (data segment %d entries, code segment %d instructions)", trunc(src, 80), trunc(out, 120), want, before.DS, before.CS)
		}
		return ""
	}
	switch kind {
	case 0, 1: // a long session: the data segment grows with every literal and name
		in["kind"] = "long session crossing 2^15 data-segment entries"
		step := r.Range(1, 6)
		doOut := kind == 0
		for i := 0; ; i++ {
			st := ses.State()
			if st.DS > 33200 || i > 40000 || refused > 400 {
				break
			}
			// far from the limit go fast, near the limit check every statement
			if st.DS < 30000 {
				// every integer literal takes one data-segment entry
				var sb strings.Builder
				for k := 0; k < 200; k++ {
					if k > 0 {
						sb.WriteString("+")
					}
					sb.WriteString("1")
				}
				if _, pan := feed("zz = "+sb.String(), doOut); pan != nil {
					return fail(fmt.Sprintf("filler statement aborted: %v", pan))
				}
				continue
			}
			a, b := i*step, i+7
			src := fmt.Sprintf("write(%d + %d)", a, b)
			want := fmt.Sprint(a + b)
			if doOut {
				want += "> nil\n"
			}
			if bad := check(src, want, doOut); bad != "" {
				return fail(bad)
			}
		}
	case 2: // one function whose body needs long jumps / many constants
		n := []int{3000, 8000, 10900, 10950, 16000, 33000}[(idx/4)%6]
		in["kind"] = fmt.Sprintf("function body of %d statements inside an if (jump distance)", n)
		var sb strings.Builder
		sb.WriteString("zf = (q) -> {\n if q > 0 {\n")
		for i := 0; i < n; i++ {
			sb.WriteString("  q = q + 2\n")
		}
		sb.WriteString("  q\n } else {\n  0 - 1\n }\n}")
		if bad := check(sb.String(), "", false); bad != "" {
			return fail(bad)
		}
		if refused == 0 {
			if bad := check("write(zf(1))", fmt.Sprint(1+2*n), false); bad != "" {
				return fail(bad)
			}
			if bad := check("write(zf(0))", "-1", false); bad != "" {
				return fail(bad)
			}
		} else if bad := check("write(7)", "7", false); bad != "" {
			return fail(bad)
		}
	default: // many locals / many arguments
		n := []int{300, 32766, 32767, 32768, 32769, 40000, 65535, 65536, 65537, 70000}[(idx/4)%10]
		in["kind"] = fmt.Sprintf("function with %d parameters called with %d arguments", n, n)
		ps := make([]string, n)
		as := make([]string, n)
		for i := range ps {
			ps[i] = cName(i)
			as[i] = "1"
		}
		last := n - 1
		if last > 100 && (idx/4)%2 == 1 {
			last = 100 // only low parameters referenced: the definition itself addresses nothing out of range
		}
		def := "zf = (" + strings.Join(ps, ", ") + ") -> " + ps[0] + " + " + ps[last]
		refusedBefore := refused
		if bad := check(def, "", false); bad != "" {
			return fail(bad)
		}
		defRefused := refused > refusedBefore
		call := "write(zf(" + strings.Join(as, ", ") + "))"
		if bad := check(call, "2", false); bad != "" {
			return fail(bad)
		}
		if n > 65535 {
			// a call with the wrapped-around argument count must not succeed either
			m := n - 65536
			out, pan := feed("write(\"ran:\" + toa(zf("+strings.Join(as[:m], ", ")+")))", false)
			if pan != nil {
				return fail(fmt.Sprintf("call with %d arguments aborted: %v", m, pan))
			}
			okOutcome := strings.HasPrefix(out, refusal) || strings.Contains(out, "RUNTIME ERROR : arity mismatch") || (defRefused && strings.Contains(out, "RUNTIME ERROR : type error"))
			if !okOutcome {
				return fail(fmt.Sprintf("a function defined with %d parameters accepted a call with %d arguments (parameter count wrapped around): %q", n, m, trunc(out, 160)))
			}
			res.Tag("history:wrapped-arity-probe")
		}
		if bad := check("write(5)", "5", false); bad != "" {
			return fail(bad)
		}
	}
	in["worked"], in["refused"] = worked, refused
	res.Add("history_statements_worked", worked)
	res.Add("history_statements_refused", refused)
	res.Add("history_sessions", 1)
	res.Tag(fmt.Sprintf("history:kind%d", kind))
	res.Hash = core.HashString(fmt.Sprint(in))
	res.Verdict = core.Held
	res.Nontrivial = worked+refused > 0
	res.Sample = in
	return res
}

func cName(i int) string {
	s := ""
	for k := i + 1; k > 0; k /= 26 {
		s += string(rune('a' + k%26))
	}
	return "p" + s
}
