package props

import (
	"fmt"
	"strings"

	"github.com/paulsonkoly/calc/parser"
	"github.com/paulsonkoly/calc/types/node"
	"github.com/paulsonkoly/calc/vm"

	"verif/ast"
	"verif/calcrun"
	"verif/core"
	"verif/rs"
	"verif/val"
)

// History level of C15: sessions and programs that cross the addressing
// limits of an instruction operand (2^15 data-segment entries, jump distances,
// local and argument counts). Oracle: every statement either prints exactly
// what it computes or is refused with a reported compiler error; the process
// stays alive, nothing is ever computed with wrapped addresses, and a refusal
// leaves the code and data segments as they were.

const refusal = "Compiler: "

func c15History(ctx *core.Ctx, idx int) core.Result {
	r := core.CaseRng(ctx.Seed, "C15/history", idx)
	var res core.Result
	kind := idx % 4
	calcrun.SetStdin("")
	ses := calcrun.NewSession()
	ses.Exec("0", false)
	feed := func(src string, doOut bool) (out string, pan any) {
		func() {
			defer func() { pan = recover() }()
			out = calcrun.Capture(func() { node.VerifProcessInput(src, parser.Type{}, ses.VM, doOut) })
		}()
		return
	}
	in := map[string]any{}
	fail := func(d string) core.Result {
		res.Verdict = core.Violated
		res.Viol = &core.Violation{Monitor: "addressing-limits", Detail: d, Input: in}
		return res
	}
	worked, refused := 0, 0
	check := func(src, want string, doOut bool) string {
		before := ses.State()
		out, pan := feed(src, doOut)
		if pan != nil {
			return fmt.Sprintf("statement %q aborted the interpreter: %v", trunc(src, 80), pan)
		}
		switch {
		case strings.HasPrefix(out, refusal):
			refused++
			after := ses.State()
			if after.CS != before.CS || after.DS != before.DS {
				return fmt.Sprintf("a refused statement changed the segments: CS %d->%d DS %d->%d", before.CS, after.CS, before.DS, after.DS)
			}
		case out == want:
			worked++
		default:
			return fmt.Sprintf("statement %q printed %q, it computes %q (data segment %d entries, code segment %d instructions)", trunc(src, 80), trunc(out, 120), want, before.DS, before.CS)
		}
		return ""
	}
	switch kind {
	case 0, 1: // a long session: the data segment grows with every literal and name
		in["kind"] = "long session crossing 2^15 data-segment entries"
		step := r.Range(1, 6)
		doOut := kind == 0
		for i := 0; ; i++ {
			st := ses.State()
			if st.DS > 33200 || i > 40000 || refused > 400 {
				break
			}
			// far from the limit go fast, near the limit check every statement
			if st.DS < 30000 {
				// every integer literal takes one data-segment entry
				var sb strings.Builder
				for k := 0; k < 200; k++ {
					if k > 0 {
						sb.WriteString("+")
					}
					sb.WriteString("1")
				}
				if _, pan := feed("zz = "+sb.String(), doOut); pan != nil {
					return fail(fmt.Sprintf("filler statement aborted: %v", pan))
				}
				continue
			}
			a, b := i*step, i+7
			src := fmt.Sprintf("write(%d + %d)", a, b)
			want := fmt.Sprint(a + b)
			if doOut {
				want += "> nil\n"
			}
			if bad := check(src, want, doOut); bad != "" {
				return fail(bad)
			}
		}
	case 2: // one function whose body needs long jumps / many constants
		n := []int{3000, 8000, 10900, 10950, 16000, 33000}[(idx/4)%6]
		in["kind"] = fmt.Sprintf("function body of %d statements inside an if (jump distance)", n)
		var sb strings.Builder
		sb.WriteString("zf = (q) -> {\n if q > 0 {\n")
		for i := 0; i < n; i++ {
			sb.WriteString("  q = q + 2\n")
		}
		sb.WriteString("  q\n } else {\n  0 - 1\n }\n}")
		if bad := check(sb.String(), "", false); bad != "" {
			return fail(bad)
		}
		if refused == 0 {
			if bad := check("write(zf(1))", fmt.Sprint(1+2*n), false); bad != "" {
				return fail(bad)
			}
			if bad := check("write(zf(0))", "-1", false); bad != "" {
				return fail(bad)
			}
		} else if bad := check("write(7)", "7", false); bad != "" {
			return fail(bad)
		}
	default: // many locals / many arguments
		n := []int{300, 32766, 32767, 32768, 32769, 40000, 65535, 65536, 65537, 70000}[(idx/4)%10]
		in["kind"] = fmt.Sprintf("function with %d parameters called with %d arguments", n, n)
		ps := make([]string, n)
		as := make([]string, n)
		for i := range ps {
			ps[i] = cName(i)
			as[i] = "1"
		}
		last := n - 1
		if last > 100 && (idx/4)%2 == 1 {
			last = 100 // only low parameters referenced: the definition itself addresses nothing out of range
		}
		def := "zf = (" + strings.Join(ps, ", ") + ") -> " + ps[0] + " + " + ps[last]
		refusedBefore := refused
		if bad := check(def, "", false); bad != "" {
			return fail(bad)
		}
		defRefused := refused > refusedBefore
		call := "write(zf(" + strings.Join(as, ", ") + "))"
		if bad := check(call, "2", false); bad != "" {
			return fail(bad)
		}
		if n > 65535 {
			// a call with the wrapped-around argument count must not succeed either
			m := n - 65536
			out, pan := feed("write(\"ran:\" + toa(zf("+strings.Join(as[:m], ", ")+")))", false)
			if pan != nil {
				return fail(fmt.Sprintf("call with %d arguments aborted: %v", m, pan))
			}
			okOutcome := strings.HasPrefix(out, refusal) || strings.Contains(out, "RUNTIME ERROR : arity mismatch") || (defRefused && strings.Contains(out, "RUNTIME ERROR : type error"))
			if !okOutcome {
				return fail(fmt.Sprintf("a function defined with %d parameters accepted a call with %d arguments (parameter count wrapped around): %q", n, m, trunc(out, 160)))
			}
			res.Tag("history:wrapped-arity-probe")
		}
		if bad := check("write(5)", "5", false); bad != "" {
			return fail(bad)
		}
	}
	in["worked"], in["refused"] = worked, refused
	res.Add("history_statements_worked", worked)
	res.Add("history_statements_refused", refused)
	res.Add("history_sessions", 1)
	res.Tag(fmt.Sprintf("history:kind%d", kind))
	res.Hash = core.HashString(fmt.Sprint(in))
	res.Verdict = core.Held
	res.Nontrivial = worked+refused > 0
	res.Sample = in
	return res
}

func cName(i int) string {
	s := ""
	for k := i + 1; k > 0; k /= 26 {
		s += string(rune('a' + k%26))
	}
	return "p" + s
}

// c15LongCode: the code segment grown to a chosen size by functions with long straight-line bodies (few
// constants, so the data segment stays small), then small functions of every control-flow shape are defined
// and called. Nothing in them is anywhere near a limit: they must work, at code offset 0 (the probe is then
// the first statement of the session) as well as beyond 2^15 and 2^16 instructions, and print what the
// reference says.
func c15LongCode(ctx *core.Ctx, idx int) core.Result {
	r := core.CaseRng(ctx.Seed, "C15/longcode", idx)
	var res core.Result
	targets := []int{0, 0, 300, 32600, 32740, 32768, 32790, 40000, 65500, 65560, 70000, 100000}
	target := targets[idx%len(targets)]
	if idx%3 == 1 {
		// fine-grained small offsets: the probes are compiled across every alignment with the points where the
		// growing code segment is reallocated (128, 256, 512 entries)
		target = 75 + (idx*37)%470
	}
	doOut := (idx/len(targets))%2 == 0
	calcrun.SetStdin("")
	ses := calcrun.NewSession()
	feed := func(src string) (out string, pan any) {
		func() {
			defer func() {
				pan = recover()
				vm.VerifMon.StepLimit = 0
			}()
			vm.VerifReset()
			vm.VerifMon.StepLimit = 5000000 // the probes need a few hundred instructions
			out = calcrun.Capture(func() { node.VerifProcessInput(src, parser.Type{}, ses.VM, doOut) })
		}()
		return
	}
	in := map[string]any{"code_segment_target": target, "repl_mode": doOut}
	fail := func(d string) core.Result {
		res.Verdict = core.Violated
		res.Viol = &core.Violation{Monitor: "addressing-limits", Detail: d, Input: in}
		return res
	}
	// padding: zpadK = (a) -> { a = a ... } with up to 15000 statements each (two instructions per statement at most)
	for k := 0; ses.State().CS+40 < target; k++ {
		left := target - ses.State().CS
		n := left / 2
		if n > 15000 {
			n = 15000
		}
		if n < 1 {
			n = 1
		}
		src := fmt.Sprintf("zpad%c%c = (a) -> {\n%sa\n}", 'a'+k/26, 'a'+k%26, strings.Repeat("a = a\n", n))
		before := ses.State().CS
		out, pan := feed(src)
		if pan != nil || strings.HasPrefix(out, refusal) {
			return core.Result{Verdict: core.Inconclusive, Reason: fmt.Sprintf("padding function refused or aborted: %v %s", pan, trunc(out, 80))}
		}
		if ses.State().CS == before || k > 40 {
			break
		}
	}
	in["code_segment_before_probes"] = ses.State().CS
	// the probes
	probes := [][]ast.Node{
		{ast.Assign{Name: "zp", Value: ast.FuncLit{Params: []string{"c", "v"}, Body: ast.Block{Stmts: []ast.Node{
			ast.If{Cond: nm("c"), Then: ast.Return{X: nm("v")}, Else: ast.Assign{Name: "v", Value: ast.Binary{Op: "+", L: nm("v"), R: il(1)}}},
			ast.Binary{Op: "*", L: nm("v"), R: il(2)}}}}},
			ast.ArrayLit{Elems: []ast.Node{icall("zp", ast.BoolLit{V: true}, il(4)), icall("zp", ast.BoolLit{V: false}, il(4))}}},
		{ast.Assign{Name: "zq", Value: ast.FuncLit{Params: []string{"n"}, Body: ast.Block{Stmts: []ast.Node{
			ast.Assign{Name: "s", Value: il(0)},
			ast.Assign{Name: "i", Value: il(0)},
			ast.While{Cond: ast.Binary{Op: "<", L: nm("i"), R: nm("n")}, Body: ast.Block{Stmts: []ast.Node{
				ast.If{Cond: ast.Binary{Op: "==", L: ast.Binary{Op: "%", L: nm("i"), R: il(2)}, R: il(0)}, Then: ast.Assign{Name: "s", Value: ast.Binary{Op: "+", L: nm("s"), R: nm("i")}}, Else: ast.Assign{Name: "s", Value: ast.Binary{Op: "-", L: nm("s"), R: il(1)}}},
				ast.Assign{Name: "i", Value: ast.Binary{Op: "+", L: nm("i"), R: il(1)}}}}},
			ast.For{Vars: []string{"a", "b"}, Iters: []ast.Node{icall("fromto", il(0), nm("n")), icall("elems", ast.StrLit{V: "xyzw"})}, Body: ast.If{Cond: ast.Binary{Op: ">", L: nm("a"), R: il(1)}, Then: ast.Return{X: ast.ArrayLit{Elems: []ast.Node{nm("s"), nm("a"), nm("b")}}}}},
			nm("s")}}}},
			ast.ArrayLit{Elems: []ast.Node{icall("zq", il(int64(r.Range(0, 2)))), icall("zq", il(int64(r.Range(3, 7))))}}},
		{ast.Assign{Name: "zr", Value: ast.FuncLit{Params: []string{"k"}, Body: ast.Block{Stmts: []ast.Node{
			ast.Assign{Name: "h", Value: ast.FuncLit{Params: []string{"z"}, Body: ast.If{Cond: ast.Binary{Op: "<=", L: nm("z"), R: il(2)}, Then: nm("k"), Else: ast.Binary{Op: "+", L: nm("z"), R: nm("k")}}}},
			ast.Assign{Name: "g", Value: ast.FuncLit{Body: ast.Block{Stmts: []ast.Node{ast.Yield{X: icall("h", il(2))}, ast.Yield{X: icall("h", il(3))}}}}},
			ast.Assign{Name: "acc", Value: ast.ArrayLit{}},
			ast.For{Vars: []string{"e"}, Iters: []ast.Node{icall("g")}, Body: ast.Assign{Name: "acc", Value: ast.Binary{Op: "+", L: nm("acc"), R: ast.ArrayLit{Elems: []ast.Node{nm("e")}}}}},
			nm("acc")}}}},
			icall("zr", il(int64(r.Range(1, 50))))},
		{ast.Assign{Name: "zi", Value: il(int64(r.Range(1, 9)))}, ast.Assign{Name: "zi", Value: ast.Binary{Op: "+", L: nm("zi"), R: il(1)}}, ast.Assign{Name: "zi", Value: ast.Binary{Op: "+", L: il(1), R: nm("zi")}}, nm("zi")},
	}
	ref := rs.New()
	order := make([]int, len(probes))
	for i := range order {
		order[i] = i
	}
	for i := len(order) - 1; i > 0; i-- {
		j := r.Intn(i + 1)
		order[i], order[j] = order[j], order[i]
	}
	for _, pi := range order {
		for _, st := range probes[pi] {
			w := ref.Exec(st)
			if w.Ambiguous != "" || w.Budget || w.TooBig || w.Err != "" {
				return core.Result{Verdict: core.Inconclusive, Reason: "probe outside the agreed region: " + w.Ambiguous + w.Err + " in " + trunc(ast.Print(st, nil), 300)}
			}
			src := ast.Print(st, nil)
			want := w.Out
			if doOut {
				want += "> " + val.Display(w.Value) + "\n"
			}
			cs := ses.State().CS
			out, pan := feed(src)
			if pan != nil {
				return fail(fmt.Sprintf("statement %q aborted the interpreter with the code segment at %d instructions: %v", trunc(src, 120), cs, pan))
			}
			if out != want {
				return fail(fmt.Sprintf("statement %q printed %q with the code segment at %d instructions; it computes %q", trunc(src, 120), trunc(out, 160), cs, want))
			}
			res.Add("probes_beyond_code_offset", 1)
		}
	}
	res.SetMax("max_code_segment", ses.State().CS)
	res.Tag(fmt.Sprintf("history:longcode-%d", target))
	res.Hash = core.HashString(fmt.Sprint(target, doOut, order))
	res.Verdict = core.Held
	res.Nontrivial = true
	res.Sample = in
	return res
}
