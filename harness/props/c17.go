package props

import (
	"fmt"
	"math"
	"strings"

	"verif/ast"
	"verif/calcrun"
	"verif/core"
	"verif/rs"
	"verif/val"
)

// C17 — built-in functions keep their contracts for every argument.
// In-process families: values are injected as globals (any int, any finite
// float bit pattern, nested arrays, strings) and the contracts are evaluated by
// the program under test itself and compared with the reference semantics:
// write(x) vs write(toa(x)), aton(toa(n)) == n, generator built-ins against
// plain list expectations, read() against the input lines, wrong argument
// types/counts. The process-level read() legs (pipe, file, FIFO, injected EIO)
// live in c17proc.go.

func c17Value(r *core.Rng) val.Value {
	switch r.Intn(10) {
	case 0:
		return val.IntV(int64(r.U64()))
	case 1:
		return val.IntV([]int64{0, 1, -1, math.MaxInt64, math.MinInt64, 1 << 53, -(1 << 53), 1e15, 999999999999999999}[r.Intn(9)])
	case 2: // random finite float bit pattern
		for {
			f := math.Float64frombits(r.U64())
			if !math.IsNaN(f) && !math.IsInf(f, 0) {
				return val.FloatV(f)
			}
		}
	case 3:
		return val.FloatV([]float64{0, math.Copysign(0, -1), 5e-324, 2.2250738585072014e-308, math.MaxFloat64, -math.MaxFloat64, 1e21, 1e20, 999999999999999900000, 1e-4, 1e-5, 123456789, 0.1, 1.0 / 3, 5, -7, 1 << 53, 1<<63 + 0.0}[r.Intn(18)])
	case 4:
		return val.FloatV(float64(int64(r.U64()>>uint(r.Intn(64)))) * math.Pow(10, float64(r.Range(-30, 30))))
	case 5:
		return val.BoolV(r.Bool())
	case 6:
		n := r.Intn(8)
		s := ""
		for i := 0; i < n; i++ {
			s += []string{"a", "1", " ", "\n", "\"", ",", "[", "é", "-", ".", "e", "%", "%d", "%v%", "%%", "\t", "{}"}[r.Intn(17)]
		}
		return val.StrV(s)
	case 7:
		return val.FunV(nil)
	default:
		n := r.Intn(4)
		a := make([]val.Value, n)
		for i := range a {
			a[i] = c17Value(r)
		}
		return val.ArrV(a)
	}
}

func c17Render(ctx *core.Ctx, idx int) core.Result {
	r := core.CaseRng(ctx.Seed, "C17/render", idx)
	var res core.Result
	x := c17Value(r)
	res.Hash = core.HashString(val.Debug(x))
	in := map[string]any{"x": val.Debug(x)}
	calcrun.SetStdin("")
	ses := calcrun.NewSession()
	ses.Exec("0", false) // runs the built-in definitions
	ses.M.SetGlobal("xin", calcrun.ToCalc(x))
	run := func(src string) (calcrun.StmtObs, string) {
		o := ses.Exec(src, true)
		if len(o) != 1 || o[0].Panic != nil || o[0].Parse != nil || o[0].StepLimit || o[0].Hang != "" {
			d := "aborted"
			if len(o) == 1 && o[0].Panic != nil {
				d = "panic: " + o[0].Panic.Msg
			}
			return calcrun.StmtObs{}, src + ": " + d
		}
		return o[0], ""
	}
	fail := func(d string) core.Result {
		res.Verdict = core.Violated
		res.Viol = &core.Violation{Monitor: "builtin-contract", Detail: d, Input: in}
		return res
	}
	w1, bad := run("write(xin)")
	if bad != "" {
		return fail(bad)
	}
	w2, bad := run("write(toa(xin))")
	if bad != "" {
		return fail(bad)
	}
	t, bad := run("toa(xin)")
	if bad != "" {
		return fail(bad)
	}
	want := val.Render(x)
	if w1.Err != "" || w2.Err != "" || t.Err != "" {
		return fail(fmt.Sprintf("write/toa failed: %q %q %q", w1.Err, w2.Err, t.Err))
	}
	if w1.Out != w2.Out {
		return fail(fmt.Sprintf("write(x) printed %q but write(toa(x)) printed %q", w1.Out, w2.Out))
	}
	if t.Value.K != val.Str || t.Value.S != w1.Out {
		return fail(fmt.Sprintf("toa(x) = %s but write(x) printed %q", val.Debug(t.Value), w1.Out))
	}
	if w1.Out != want {
		return fail(fmt.Sprintf("write(x) printed %q, reference rendering %q", w1.Out, want))
	}
	if w1.Value.K != val.Nil {
		return fail("write did not evaluate to nil")
	}
	res.Add("render_checks", 1)
	res.Tag("kind:" + x.K.String())
	// a rendering stays what it is while other values are rendered: several results alive in one expression and
	// across statements
	y := c17Value(r)
	in["y"] = val.Debug(y)
	ses.M.SetGlobal("yin", calcrun.ToCalc(y))
	wy := val.Render(y)
	alive := []struct {
		src  string
		want val.Value
	}{
		{"[toa(xin), toa(yin), toa(xin)]", val.ArrV([]val.Value{val.StrV(want), val.StrV(wy), val.StrV(want)})},
		{"toa(xin) + toa(yin)", val.StrV(want + wy)},
		{"xkept = toa(xin)", val.StrV(want)},
		{"ykept = toa(yin)", val.StrV(wy)},
		{"[xkept, ykept]", val.ArrV([]val.Value{val.StrV(want), val.StrV(wy)})},
	}
	for _, a := range alive {
		o, bad := run(a.src)
		if bad != "" {
			return fail(bad)
		}
		if o.Err != "" || !val.Same(o.Value, a.want) {
			return fail(fmt.Sprintf("%s = %s (error %q), want %s", a.src, val.Debug(o.Value), o.Err, val.Debug(a.want)))
		}
		res.Add("render_checks", 1)
	}
	if x.K == val.Int || x.K == val.Float {
		rt, bad := run("aton(toa(xin)) == xin")
		if bad != "" {
			return fail(bad)
		}
		if rt.Err != "" || rt.Value.K != val.Bool || !rt.Value.B {
			back, _ := run("aton(toa(xin))")
			return fail(fmt.Sprintf("aton(toa(n)) == n is %s (error %q): toa gives %q, aton gives %s", val.Debug(rt.Value), rt.Err, want, val.Debug(back.Value)))
		}
		if x.K == val.Int {
			// for integers the round trip must give back the very same integer (not a float that compares equal)
			back, bad := run("aton(toa(xin))")
			if bad != "" {
				return fail(bad)
			}
			if back.Err != "" || !val.Same(back.Value, x) {
				return fail(fmt.Sprintf("aton(toa(%s)) = %s", val.Debug(x), val.Debug(back.Value)))
			}
		}
		// the rendering followed by a line break or a blank, or preceded by one, is not the text of a number
		for _, src := range []string{"aton(toa(xin) + \"\\n\")", "aton(toa(xin) + \" \")", "aton(\" \" + toa(xin))"} {
			o, bad := run(src)
			if bad != "" {
				return fail(bad)
			}
			if o.Err != "conversion" {
				return fail(fmt.Sprintf("%s gave %s (error %q), want a conversion error", src, val.Debug(o.Value), o.Err))
			}
		}
		res.Add("aton_roundtrips", 1)
	}
	res.Verdict = core.Held
	res.Nontrivial = true
	res.Sample = map[string]any{"family": "render", "x": val.Debug(x), "printed": want}
	return res
}

// c17Gens: fromto / elems / indices against plain list expectations and the reference.
func c17Gens(ctx *core.Ctx, idx int) core.Result {
	r := core.CaseRng(ctx.Seed, "C17/gens", idx)
	var res core.Result
	var src string
	var want val.Value
	// the other built-in names rebound to junk first (one case in three): a built-in must not depend on what
	// a program binds to the names of its siblings
	rebind := ""
	if r.Chance(1, 3) {
		me := []string{"fromto", "fromto", "elems", "indices"}[idx%4]
		for _, n := range []string{"fromto", "elems", "indices", "aton", "read"} {
			if n != me && r.Chance(2, 3) {
				rebind += " " + n + " = " + []string{"10", "\"junk\"", "(p, q) -> for k <- [] yield k", "() -> 0"}[r.Intn(4)] + "\n"
			}
		}
	}
	collect := func(call string) string {
		return "{\n" + rebind + " zr = []\n for zi <- " + call + " zr = zr + [zi]\n zr\n}"
	}
	take := func(call string, k int) string {
		return fmt.Sprintf("{\n"+rebind+" zr = []\n for zi <- %s {\n zr = zr + [zi]\n if #zr >= %d return zr\n }\n zr\n}", call, k)
	}
	i64 := func(v int64) string {
		if v == math.MinInt64 {
			return "(0 - 9223372036854775807 - 1)"
		}
		if v < 0 {
			return fmt.Sprintf("(0 - %d)", -v)
		}
		return fmt.Sprint(v)
	}
	switch idx % 4 {
	case 0:
		if r.Chance(1, 5) {
			// bounds at the ends of the integer range, more than 2^63 apart; the first three elements are taken
			ends := []int64{math.MinInt64, math.MinInt64 + 1, -2, -1, 0, 1, 2, math.MaxInt64 - 3, math.MaxInt64 - 1, math.MaxInt64}
			a, b := ends[r.Intn(len(ends))], ends[r.Intn(len(ends))]
			var l []val.Value
			for i := int64(0); i < 3 && a <= math.MaxInt64-i && a+i < b; i++ {
				l = append(l, val.IntV(a+i))
			}
			want = val.ArrV(l)
			src = take(fmt.Sprintf("fromto(%s, %s)", i64(a), i64(b)), 3)
			res.Tag("gen:fromto-extreme-bounds")
			break
		}
		a, b := r.Range(-6, 6), r.Range(-6, 6)
		if r.Chance(1, 8) {
			a = r.Range(-3, 3) + 1<<40
			b = a + r.Range(-2, 4)
		}
		var l []val.Value
		for i := a; i < b; i++ {
			l = append(l, val.IntV(int64(i)))
		}
		want = val.ArrV(l)
		src = collect(fmt.Sprintf("fromto(%s, %s)", calcInt(a), calcInt(b)))
	case 1: // float bounds: a, a+1, ... below b
		if r.Chance(1, 3) {
			// an int start and a fractional float bound (and the other way round): the comparison is numeric
			ai := r.Range(-4, 6)
			b := float64(ai) + float64(r.Range(-3, 11))/4
			var l []val.Value
			if r.Bool() {
				for x := ai; float64(x) < b; x++ {
					l = append(l, val.IntV(int64(x)))
				}
				want = val.ArrV(l)
				src = collect(fmt.Sprintf("fromto(%s, %s)", calcInt(ai), calcFloat4(b)))
			} else {
				bi := ai + r.Range(0, 3)
				a := float64(ai) - float64(r.Range(0, 3))/4
				for x := a; x < float64(bi); x++ {
					l = append(l, val.FloatV(x))
				}
				want = val.ArrV(l)
				src = collect(fmt.Sprintf("fromto(%s, %s)", calcFloat4(a), calcInt(bi)))
			}
			res.Tag("gen:fromto-mixed")
			break
		}
		a := float64(r.Range(-8, 8)) / 2
		b := a + float64(r.Range(-2, 9))/2
		var l []val.Value
		for x := a; x < b; x++ {
			l = append(l, val.FloatV(x))
		}
		want = val.ArrV(l)
		src = collect(fmt.Sprintf("fromto(%s, %s)", calcFloat(a), calcFloat(b)))
	case 2, 3:
		n := r.Range(0, 40)
		isStr := r.Bool()
		var lit string
		var elems, idxs []val.Value
		if isStr {
			s := ""
			for i := 0; i < n; i++ {
				c := string(rune('a' + r.Intn(26)))
				s += c
				elems = append(elems, val.StrV(c))
			}
			lit = "\"" + s + "\""
		} else {
			var parts []string
			for i := 0; i < n; i++ {
				v := r.Range(-50, 50)
				parts = append(parts, calcInt(v))
				elems = append(elems, val.IntV(int64(v)))
			}
			lit = "[" + strings.Join(parts, ", ") + "]"
		}
		for i := 0; i < n; i++ {
			idxs = append(idxs, val.IntV(int64(i)))
		}
		if idx%4 == 2 {
			want, src = val.ArrV(elems), collect("elems("+lit+")")
		} else {
			want, src = val.ArrV(idxs), collect("indices("+lit+")")
		}
	}
	res.Hash = core.HashString(src)
	in := map[string]any{"program": src}
	nodes, perr, _, _, _, _ := calcrun.Parse(src)
	if perr != nil || len(nodes) != 1 {
		res.Verdict, res.Reason = core.Inconclusive, "harness text rejected: "+src
		return res
	}
	stmts := []ast.Node{calcrun.FromNode(nodes[0])}
	for _, doOut := range []bool{true} {
		d := runDiff(stmts, diffOpts{DoOut: doOut, Stress: stressModes[idx%len(stressModes)], Residue: true})
		if d.Verdict != core.Held {
			rr := diffCase("C17", stmts, diffOpts{DoOut: doOut}, d, nil)
			return rr
		}
		got := d.Pairs[0].Calc.Value
		if !val.Same(got, want) {
			res.Verdict = core.Violated
			res.Viol = &core.Violation{Monitor: "builtin-contract", Detail: fmt.Sprintf("collected %s, the contract says %s", trunc(val.Debug(got), 300), trunc(val.Debug(want), 300)), Input: in}
			return res
		}
	}
	res.Add("generator_contract_checks", 1)
	res.Add("values_yielded", len(want.A))
	res.Tag("gen:" + []string{"fromto-int", "fromto-float", "elems", "indices"}[idx%4])
	res.Verdict = core.Held
	res.Nontrivial = true
	res.Sample = map[string]any{"family": "gens", "program": src, "collected": val.Render(want)}
	return res
}

func calcInt(v int) string {
	if v < 0 {
		return fmt.Sprintf("(0 - %d)", -v)
	}
	return fmt.Sprint(v)
}

func calcFloat4(f float64) string {
	s := fmt.Sprintf("%.2f", math.Abs(f))
	if f < 0 {
		return "(0 - " + s + ")"
	}
	return s
}

func calcFloat(f float64) string {
	s := fmt.Sprintf("%.1f", math.Abs(f))
	if f < 0 {
		return "(0 - " + s + ")"
	}
	return s
}

// c17Misuse: wrong argument types and counts must be runtime errors.
func c17Misuse(_ *core.Ctx, idx int) core.Result {
	var res core.Result
	builtins := []struct {
		name  string
		arity int
	}{{"read", 0}, {"write", 1}, {"aton", 1}, {"toa", 1}, {"fromto", 2}, {"elems", 1}, {"indices", 1}}
	args := []string{"1", "1.5", "true", "\"s\"", "[1]", "(q) -> q", "\"12\"", "[]", "\"\""}
	b := builtins[idx%len(builtins)]
	rest := idx / len(builtins)
	nargs := rest % 4
	rest /= 4
	var as []string
	for i := 0; i < nargs; i++ {
		as = append(as, args[rest%len(args)])
		rest /= len(args)
	}
	call := b.name + "(" + strings.Join(as, ", ") + ")"
	src := call
	if b.name == "fromto" || b.name == "elems" || b.name == "indices" {
		src = "for zi <- " + call + " zi"
	}
	res.Hash = core.HashString(src)
	in := map[string]any{"program": src}
	// what the contract says
	expectErr := nargs != b.arity
	if !expectErr {
		switch b.name {
		case "aton":
			expectErr = !strings.HasPrefix(as[0], "\"") || as[0] == "\"s\"" || as[0] == "\"\""
		case "fromto":
			num := func(a string) bool { return a == "1" || a == "1.5" }
			expectErr = !num(as[0]) || !num(as[1])
		case "elems", "indices":
			expectErr = !(strings.HasPrefix(as[0], "\"") || strings.HasPrefix(as[0], "["))
		}
	}
	calcrun.SetStdin("a line\n")
	ses := calcrun.NewSession()
	o := ses.Exec(src, true)
	if len(o) != 1 || o[0].Panic != nil || o[0].Parse != nil || o[0].StepLimit || o[0].Hang != "" {
		res.Verdict = core.Violated
		res.Viol = &core.Violation{Monitor: "no-abort", Detail: src + " aborted", Input: in}
		return res
	}
	gotErr := o[0].Err != ""
	if expectErr != gotErr || (gotErr && !documentedErrs[o[0].Err]) {
		res.Verdict = core.Violated
		res.Viol = &core.Violation{Monitor: "builtin-contract", Detail: fmt.Sprintf("%s: error %q, the contract says error=%v", src, o[0].Err, expectErr), Input: in}
		return res
	}
	// and the reference agrees on the class when it has an opinion
	ref := rs.New()
	ref.SetStdin("a line\n")
	nodes, _, _, _, _, _ := calcrun.Parse(src)
	if len(nodes) == 1 {
		w := ref.Exec(calcrun.FromNode(nodes[0]))
		if w.Ambiguous == "" && !w.Budget && w.Err != o[0].Err {
			res.Verdict = core.Violated
			res.Viol = &core.Violation{Monitor: "differential", Detail: fmt.Sprintf("%s: error class %q, reference %q", src, o[0].Err, w.Err), Input: in}
			return res
		}
	}
	res.Add("misuse_checks", 1)
	if gotErr {
		res.Tag("err:" + o[0].Err)
	}
	res.Verdict = core.Held
	res.Nontrivial = true
	res.Sample = map[string]any{"family": "misuse", "program": src, "error": o[0].Err}
	return res
}

// c17Read: successive read() calls return successive lines (in-process, stdin is a regular file).
func c17Read(ctx *core.Ctx, idx int) core.Result {
	r := core.CaseRng(ctx.Seed, "C17/read", idx)
	var res core.Result
	nlines := r.Range(0, 12)
	var lines []string
	for i := 0; i < nlines; i++ {
		n := r.Range(0, 30)
		if r.Chance(1, 10) {
			n = r.Range(4000, 9000) // longer than the reader's buffer
		}
		var sb strings.Builder
		for j := 0; j < n; j++ {
			sb.WriteByte("abc xyz,;\"[]{}0123456789\t"[r.Intn(25)])
		}
		line := fmt.Sprintf("%d:", i) + sb.String()
		switch r.Intn(8) {
		case 0:
			line = "" // an empty line is a line
		case 1:
			line += "\r" // a carriage return before the line break belongs to the line
		case 2:
			line = "\r"
		}
		lines = append(lines, line+"\n")
	}
	input := strings.Join(lines, "")
	k := r.Range(0, nlines+2)
	res.Hash = core.HashString(fmt.Sprint(k, input))
	calcrun.SetStdin(input)
	ses := calcrun.NewSession()
	in := map[string]any{"lines": nlines, "reads": k}
	var got strings.Builder
	for i := 0; i < k; i++ {
		if r.Chance(1, 3) {
			// a statement that fails (and is reported) between two reads must not disturb the input
			bad := []string{"1/0", "aton(\"x\")", "for zq <- elems(5) zq", "[1][3]", "nosuch(1)"}[r.Intn(5)]
			if o := ses.Exec(bad, false); len(o) != 1 || o[0].Err == "" {
				res.Verdict, res.Reason = core.Inconclusive, "interleaved failing statement did not fail"
				return res
			}
			res.Tag("read:after-runtime-error")
		}
		var src string
		switch r.Intn(3) {
		case 0:
			src = "write(read())"
		case 1:
			src = "{\n zl = read()\n write(zl)\n}"
		default:
			src = "for zq <- fromto(0, 1) write(read())"
		}
		o := ses.Exec(src, false)
		if len(o) != 1 || o[0].Panic != nil || o[0].Parse != nil || o[0].StepLimit || o[0].Hang != "" {
			res.Verdict = core.Violated
			res.Viol = &core.Violation{Monitor: "no-abort", Detail: "read aborted", Input: in}
			return res
		}
		if i >= nlines {
			if o[0].Err != val.ERead {
				res.Verdict = core.Violated
				res.Viol = &core.Violation{Monitor: "builtin-contract", Detail: fmt.Sprintf("read() number %d of %d lines: error %q, expected a read error at end of input", i+1, nlines, o[0].Err), Input: in}
				return res
			}
			res.Tag("read:eof-error")
			continue
		}
		if o[0].Err != "" {
			res.Verdict = core.Violated
			res.Viol = &core.Violation{Monitor: "builtin-contract", Detail: fmt.Sprintf("read() number %d of %d lines failed with %q", i+1, nlines, o[0].Err), Input: in}
			return res
		}
		got.WriteString(o[0].Out)
		res.Add("lines_read", 1)
	}
	n := k
	if n > nlines {
		n = nlines
	}
	if got.String() != strings.Join(lines[:n], "") {
		res.Verdict = core.Violated
		res.Viol = &core.Violation{Monitor: "builtin-contract", Detail: fmt.Sprintf("%d successive read() calls returned %q, the input starts with %q", n, trunc(got.String(), 200), trunc(strings.Join(lines[:n], ""), 200)), Input: in}
		return res
	}
	res.Verdict = core.Held
	res.Nontrivial = k >= 2
	res.Sample = map[string]any{"family": "read", "lines": nlines, "reads": k}
	return res
}

func init() {
	nMisuse := 7 * 4 * 9 * 9 * 9
	register(&core.Property{
		ID:          "C17",
		Rule:        "(1) render: values injected as a global — random 64-bit ints and boundary ints, random finite float bit patterns, boundary floats (signed zero, subnormal, max, 1e20/1e21 threshold, 2^53, 2^63), scaled integers-as-floats, bools, strings with quotes/newlines/non-ASCII, functions, nested arrays of those — write(x) vs write(toa(x)) vs toa(x) vs the reference rendering, and aton(toa(n)) == n for every int and finite float, aton of the rendering plus a line break / blank = conversion error, renderings of two values kept alive side by side; (2) gens: fromto(a,b) for a,b in -6..6, near 2^40 and with float bounds, elems/indices of arrays and strings of length 0..40, collected by a for loop and compared with a plain list and with the reference; (3) misuse: every built-in with 0..3 arguments drawn from 9 argument kinds (enumerated: " + fmt.Sprint(nMisuse) + " calls) must fail exactly when the contract says so, with a documented class; (4) read: inputs of 0..12 lines (some longer than 4 KiB) consumed by 0..n+2 read() calls in three syntactic positions must return successive lines and then a read error. (5) proc: the real binary runs write(read()) scripts with standard input from a pipe, a regular file, a FIFO fed in irregular chunks, and a regular file whose 1st..3rd read(2) fails with EIO injected by strace: whole successive lines, then the read error report, exit status 0, script continues. distinct by value / program text.",
		Assumptions: []string{"float rendering is Go's shortest round-trip %v; NaN and infinities are outside 'finite float'", "standard input always ends with a newline (an unterminated last line is not covered by the contract)"},
		Families: []core.Family{
			{Name: "render", Count: countFn(80000, 3000000), Run: c17Render},
			{Name: "gens", Count: countFn(8000, 300000), Run: c17Gens},
			{Name: "misuse", Count: func(t string) int { return tierN(t, nMisuse/3, nMisuse) }, Run: func(c *core.Ctx, idx int) core.Result {
				if c.Tier != "thorough" {
					idx *= 3
				}
				return c17Misuse(c, idx)
			}},
			{Name: "read", Count: countFn(8000, 300000), Run: c17Read},
			{Name: "proc", Count: countFn(240, 3000), Run: c17Proc},
			{Name: "exit", Count: countFn(120, 2000), Run: c17Exit},
		},
		Floors: []core.Floor{{Key: "render_checks", Quick: 25000, Thor: 2500000}, {Key: "aton_roundtrips", Quick: 10000, Thor: 1000000}, {Key: "generator_contract_checks", Quick: 2500, Thor: 250000}, {Key: "misuse_checks", Quick: 6000, Thor: 18000}, {Key: "lines_read", Quick: 8000, Thor: 800000}, {Key: "tag:gen:", Quick: 4, Thor: 4}, {Key: "process_runs", Quick: 80, Thor: 2000}, {Key: "tag:stdin:", Quick: 3, Thor: 3}},
	})
}
