package props

import (
	"fmt"
	"regexp"
	"strings"

	"github.com/paulsonkoly/calc/parser"
	"github.com/paulsonkoly/calc/types/node"

	"verif/ast"
	"verif/calcrun"
	"verif/core"
	"verif/gen"
	"verif/rs"
	"verif/val"
)

// C08 — a session survives errors. Twin-run monitor: session A = prefix · F ·
// suffix (F fails) and session B = prefix · G · suffix, where G re-creates by
// plain literal assignments exactly the global bindings F completed before it
// failed. The suffix observations of A must equal those of B (the
// implementation against itself, as the property is worded) and the reference
// semantics'. The residue monitor checks the machine right after F.

func faultExpr(r *core.Rng, class int) (ast.Node, string) {
	one := il(1)
	switch class % 7 {
	case 0:
		return ast.Binary{Op: []string{"/", "%"}[r.Intn(2)], L: il(int64(r.Intn(50))), R: il(0)}, "zerodiv"
	case 1:
		switch r.Intn(4) {
		case 0: // a two-bound slice past the end of an array / of a string, or with its bounds crossed
			return ast.Slice{X: ast.ArrayLit{Elems: []ast.Node{one, one, one}}, I: il(int64(r.Range(0, 3))), J: il(int64(r.Range(4, 9)))}, "index"
		case 1:
			if r.Chance(1, 2) {
				return ast.Slice{X: ast.StrLit{V: "abc"}, I: il(int64(r.Range(0, 3))), J: il(int64(r.Range(4, 9)))}, "index"
			}
			return ast.Slice{X: ast.ArrayLit{Elems: []ast.Node{one, one, one}}, I: il(2), J: il(1)}, "index"
		}
		return ast.Index{X: ast.ArrayLit{Elems: []ast.Node{one, one}}, I: il(int64(r.Range(2, 9)))}, "index"
	case 2:
		return ast.Binary{Op: "+", L: il(3), R: ast.StrLit{V: "s"}}, "type"
	case 3:
		return ast.Binary{Op: "*", L: nm("znosuch"), R: il(2)}, "nil"
	case 4:
		return icall("aton", ast.StrLit{V: "12x"}), "conversion"
	case 5:
		return icall("toa", one, one), "arity"
	default:
		return ast.Binary{Op: "+", L: ast.Unary{Op: "#", X: icall("read")}, R: ast.Unary{Op: "#", X: icall("read")}}, "read"
	}
}

// literalOf renders a value as a literal expression (ints, strings, bools, arrays of those).
func literalOf(v val.Value) (ast.Node, bool) {
	switch v.K {
	case val.Int:
		if v.I < 0 {
			if v.I == -9223372036854775808 {
				return nil, false
			}
			return ast.Unary{Op: "-", X: il(-v.I)}, true
		}
		return il(v.I), true
	case val.Bool:
		return ast.BoolLit{V: v.B}, true
	case val.Str:
		for i := 0; i < len(v.S); i++ {
			if v.S[i] == '\\' || v.S[i] >= 0x80 {
				return nil, false
			}
		}
		return ast.StrLit{V: v.S}, true
	case val.Arr:
		es := make([]ast.Node, len(v.A))
		for i, e := range v.A {
			l, ok := literalOf(e)
			if !ok {
				return nil, false
			}
			es[i] = l
		}
		return ast.ArrayLit{Elems: es}, true
	}
	return nil, false
}

// failingStatements builds F: statements that fail, possibly after completing
// some global assignments, at a chosen dynamic depth.
func failingStatements(r *core.Rng) (stmts []ast.Node, where string) {
	f, class := faultExpr(r, r.Intn(7))
	boom := ast.Assign{Name: "zboom", Value: ast.FuncLit{Params: []string{"d"}, Body: ast.If{Cond: ast.Binary{Op: "<=", L: nm("d"), R: il(0)}, Then: f, Else: ast.Binary{Op: "+", L: il(1), R: icall("zboom", ast.Binary{Op: "-", L: nm("d"), R: il(1)})}}}}
	pre := func() []ast.Node { // global assignments completed before the failure
		var ss []ast.Node
		for k := r.Range(0, 2); k > 0; k-- {
			ss = append(ss, ast.Assign{Name: []string{"ga", "gb", "gc"}[r.Intn(3)], Value: []ast.Node{il(int64(r.Intn(100))), ast.StrLit{V: "kept"}, ast.ArrayLit{Elems: []ast.Node{il(1), ast.StrLit{V: "k"}}}}[r.Intn(3)]})
		}
		if r.Chance(1, 3) {
			// a function that calls another one, bound inside the statement that is going to fail: a later failure below
			// that call is reported with the same backtrace as in a session that never saw this failure
			ss = append(ss, ast.Assign{Name: "zkcall", Value: ast.FuncLit{Params: []string{"n"}, Body: ast.Binary{Op: "+", L: icall("zkboom", nm("n"), il(int64(r.Intn(9)))), R: il(1)}}})
		}
		if r.Chance(1, 3) {
			// a function whose body holds data-segment constants, bound inside the statement that is going to fail
			ss = append(ss, ast.Assign{Name: "zkeep", Value: ast.FuncLit{Params: []string{"n"}, Body: ast.ArrayLit{Elems: []ast.Node{nm("n"), ast.StrLit{V: fmt.Sprintf("const-%d", r.Intn(100))}, ast.FloatLit{V: 2.5}, ast.StrLit{V: "second"}}}}})
		}
		return ss
	}
	blk := func(ss ...ast.Node) ast.Node {
		if len(ss) == 1 {
			return ss[0]
		}
		return ast.Block{Stmts: ss}
	}
	switch r.Intn(12) {
	case 11:
		where = "generator-dropped-while-its-closure-is-kept"
		k := int64(r.Range(1, 2))
		stmts = []ast.Node{
			ast.Assign{Name: "zcg", Value: ast.FuncLit{Params: []string{"a"}, Body: ast.Block{Stmts: []ast.Node{
				ast.Assign{Name: "x", Value: ast.Binary{Op: "*", L: nm("a"), R: il(7)}},
				ast.Yield{X: ast.FuncLit{Body: nm("x")}},
				ast.Assign{Name: "x", Value: ast.Binary{Op: "+", L: nm("x"), R: il(1)}},
				ast.Yield{X: ast.FuncLit{Body: ast.Binary{Op: "+", L: nm("x"), R: il(100)}}},
				ast.Yield{X: ast.FuncLit{Body: il(0)}}}}}},
			ast.Assign{Name: "gi", Value: il(0)},
			ast.For{Vars: []string{"gh"}, Iters: []ast.Node{icall("zcg", il(int64(r.Range(2, 9))))}, Body: ast.Block{Stmts: []ast.Node{
				ast.Assign{Name: "gfn", Value: nm("gh")},
				ast.Assign{Name: "gi", Value: ast.Binary{Op: "+", L: nm("gi"), R: il(1)}},
				ast.If{Cond: ast.Binary{Op: ">", L: nm("gi"), R: il(k)}, Then: f}}}}}
	case 0:
		where = "top-level"
		stmts = []ast.Node{blk(append(pre(), ast.Assign{Name: "gz", Value: f})...)}
	case 1:
		where = "call-depth"
		d := int64([]int{1, 2, 10, 50, 200}[r.Intn(5)])
		stmts = []ast.Node{boom, blk(append(pre(), icall("zboom", il(d)))...)}
	case 2:
		where = "while-body"
		k := int64(r.Intn(4))
		stmts = []ast.Node{blk(append(pre(), ast.Assign{Name: "gi", Value: il(0)}, ast.While{Cond: ast.Binary{Op: "<", L: nm("gi"), R: il(6)}, Body: ast.Block{Stmts: []ast.Node{ast.If{Cond: ast.Binary{Op: "==", L: nm("gi"), R: il(k)}, Then: f}, ast.Assign{Name: "gi", Value: ast.Binary{Op: "+", L: nm("gi"), R: il(1)}}}}})...)}
	case 3:
		where = "for-body"
		k := int64(r.Intn(4))
		stmts = []ast.Node{ast.For{Vars: []string{"gv"}, Iters: []ast.Node{icall("fromto", il(0), il(6))}, Body: ast.If{Cond: ast.Binary{Op: "==", L: nm("gv"), R: il(k)}, Then: f, Else: ast.Assign{Name: "gw", Value: nm("gv")}}}}
	case 4:
		where = "generator-after-kth-yield"
		k := r.Intn(3)
		var body []ast.Node
		for i := 0; i < 4; i++ {
			if i == k {
				body = append(body, f)
			}
			body = append(body, ast.Yield{X: il(int64(i))})
		}
		stmts = []ast.Node{ast.Assign{Name: "zgen", Value: ast.FuncLit{Body: ast.Block{Stmts: body}}}, ast.For{Vars: []string{"gv"}, Iters: []ast.Node{icall("zgen")}, Body: ast.Assign{Name: "gw", Value: ast.Binary{Op: "*", L: nm("gv"), R: il(2)}}}}
	case 5:
		where = "nested-generator"
		k := int64(r.Intn(3))
		stmts = []ast.Node{
			ast.Assign{Name: "zinner", Value: ast.FuncLit{Body: ast.For{Vars: []string{"e"}, Iters: []ast.Node{icall("fromto", il(0), il(5))}, Body: ast.Block{Stmts: []ast.Node{ast.If{Cond: ast.Binary{Op: "==", L: nm("e"), R: il(k)}, Then: f}, ast.Yield{X: nm("e")}}}}}},
			ast.Assign{Name: "zouter", Value: ast.FuncLit{Body: ast.For{Vars: []string{"e"}, Iters: []ast.Node{icall("zinner")}, Body: ast.Yield{X: ast.Binary{Op: "+", L: nm("e"), R: il(10)}}}}},
			ast.For{Vars: []string{"gv", "gu"}, Iters: []ast.Node{icall("zouter"), icall("fromto", il(0), il(9))}, Body: ast.Assign{Name: "gw", Value: nm("gv")}}}
	case 6:
		where = "closure"
		stmts = []ast.Node{ast.Assign{Name: "zmk", Value: ast.FuncLit{Params: []string{"k"}, Body: ast.FuncLit{Params: []string{"z"}, Body: ast.Binary{Op: "+", L: ast.Binary{Op: "+", L: nm("k"), R: nm("z")}, R: f}}}},
			ast.Assign{Name: "zcl", Value: icall("zmk", il(3))}, blk(append(pre(), icall("zcl", il(4)))...)}
	case 7:
		where = "loop-body-in-function-at-depth"
		stmts = []ast.Node{boom, ast.Assign{Name: "zlf", Value: ast.FuncLit{Params: []string{"n"}, Body: ast.For{Vars: []string{"i"}, Iters: []ast.Node{icall("fromto", il(0), nm("n"))}, Body: ast.If{Cond: ast.Binary{Op: "==", L: nm("i"), R: il(2)}, Then: icall("zboom", il(7)), Else: nm("i")}}}},
			icall("zlf", il(5))}
	case 10: // a failed assignment (assigning an absent value) to a global that is already bound
		where = "nil-assignment-to-bound-global"
		g := []string{"ga", "gb", "gw"}[r.Intn(3)]
		switch r.Intn(3) {
		case 0:
			stmts = []ast.Node{ast.Assign{Name: g, Value: nm("znosuch")}}
		case 1:
			stmts = []ast.Node{ast.Assign{Name: "znone", Value: ast.FuncLit{Body: ast.While{Cond: ast.BoolLit{V: false}, Body: il(1)}}}, ast.Assign{Name: g, Value: icall("znone")}}
		default:
			stmts = []ast.Node{ast.Assign{Name: "zng", Value: ast.FuncLit{Body: ast.Block{Stmts: []ast.Node{ast.Yield{X: il(41)}, ast.Yield{X: nm("znosuch")}}}}},
				ast.For{Vars: []string{g}, Iters: []ast.Node{icall("zng")}, Body: ast.Assign{Name: "gz", Value: ast.Binary{Op: "+", L: nm(g), R: il(1)}}}}
		}
	case 8:
		where = "parse-error"
		stmts = nil
	default:
		where = "several-in-a-row"
		f2, _ := faultExpr(r, r.Intn(7))
		stmts = []ast.Node{boom, icall("zboom", il(3)), ast.Assign{Name: "gz", Value: f2}, ast.For{Vars: []string{"gv"}, Iters: []ast.Node{icall("fromto", il(0), il(3))}, Body: icall("zboom", nm("gv"))}}
	}
	_ = class
	return
}

var parseErrTexts = []string{"gz = 99 )", "write(\"LEAK\") (", "ga = 5 gb = = 6", "gw = 7 gi = 8 }", "zleak = (n) -> n + 1 gz = zleak(1) ]", "gc = 4 for i, j <- elems([1]) i",
	"{\n 1\n 2 +\n 3\n}", "[1,\n 2 3,\n 4]", "{\n x = 1\n y = = 2\n x\n}", "f = (a) -> {\n a\n ) \n a\n}", "{\n 1\n £\n 2\n}", "1 +", "(", "x = ", "if", "\"abc", "12££12", "[1, 2", "f(1,", "else 2", "}", "a b = 3", "for i <- ", "(a, b) ->", "while", "1 1", "{\n 1\n"}

// suffixProbes: statements that reuse frames, contexts, the free list, closures and a top-level return.
func suffixProbes(r *core.Rng) []ast.Node {
	return []ast.Node{
		ast.Assign{Name: "zfib", Value: ast.FuncLit{Params: []string{"n"}, Body: ast.If{Cond: ast.Binary{Op: "<", L: nm("n"), R: il(2)}, Then: nm("n"), Else: ast.Binary{Op: "+", L: icall("zfib", ast.Binary{Op: "-", L: nm("n"), R: il(1)}), R: icall("zfib", ast.Binary{Op: "-", L: nm("n"), R: il(2)})}}}},
		icall("zfib", il(int64(r.Range(3, 9)))),
		ast.Block{Stmts: []ast.Node{ast.Assign{Name: "zs", Value: ast.ArrayLit{}}, ast.For{Vars: []string{"zi", "zc"}, Iters: []ast.Node{icall("fromto", il(0), il(4)), icall("elems", ast.StrLit{V: "wxyz"})}, Body: ast.Assign{Name: "zs", Value: ast.Binary{Op: "+", L: nm("zs"), R: ast.ArrayLit{Elems: []ast.Node{nm("zi"), nm("zc")}}}}}, nm("zs")}},
		ast.Assign{Name: "zadd", Value: ast.FuncLit{Params: []string{"k"}, Body: ast.FuncLit{Params: []string{"z"}, Body: ast.Binary{Op: "+", L: nm("k"), R: nm("z")}}}},
		ast.Assign{Name: "zaddfive", Value: icall("zadd", il(5))},
		icall("zaddfive", il(int64(r.Intn(9)))),
		ast.For{Vars: []string{"zi"}, Iters: []ast.Node{icall("fromto", il(0), il(9))}, Body: ast.If{Cond: ast.Binary{Op: "==", L: nm("zi"), R: il(int64(r.Intn(5)))}, Then: ast.Return{X: ast.Binary{Op: "*", L: nm("zi"), R: il(7)}}}},
		// a closure whose defining frame is live while the stack grows beyond anything the session used so far
		ast.Assign{Name: "zdeepc", Value: ast.FuncLit{Params: []string{"n"}, Body: ast.If{Cond: ast.Binary{Op: "<=", L: nm("n"), R: il(0)}, Then: il(0), Else: ast.Binary{Op: "+", L: il(1), R: icall("zdeepc", ast.Binary{Op: "-", L: nm("n"), R: il(1)})}}}},
		ast.Assign{Name: "zgrow", Value: ast.FuncLit{Params: []string{"a", "d"}, Body: ast.Block{Stmts: []ast.Node{
			ast.Assign{Name: "h", Value: ast.FuncLit{Body: ast.Binary{Op: "*", L: nm("a"), R: il(2)}}},
			ast.Assign{Name: "x", Value: icall("zdeepc", nm("d"))},
			ast.Assign{Name: "a", Value: ast.Binary{Op: "+", L: nm("a"), R: il(1)}},
			ast.Binary{Op: "+", L: icall("h"), R: nm("x")}}}}},
		icall("zgrow", il(int64(r.Range(1, 9))), il(int64(r.Range(300, 700)))),
		icall("zgrow", il(int64(r.Range(1, 9))), il(int64(r.Range(900, 1600)))),
		ast.Assign{Name: "zfresh", Value: ast.ArrayLit{Elems: []ast.Node{ast.StrLit{V: fmt.Sprintf("fresh-%d", r.Intn(100))}, ast.FloatLit{V: 7.25}, ast.StrLit{V: "later"}}}},
		icall("zkeep", il(int64(r.Intn(9)))),
		icall("zkcall", il(int64(r.Range(0, 3)))), // (fails below the call inside zkcall)
		ast.For{Vars: []string{"zi"}, Iters: []ast.Node{icall("zkgen", il(int64(r.Range(20, 60))))}, Body: nm("zi")},
		ast.If{Cond: ast.Binary{Op: "==", L: toa(nm("gfn")), R: ast.StrLit{V: "function"}}, Then: icall("gfn"), Else: il(0)},
		ast.ArrayLit{Elems: []ast.Node{toa(nm("ga")), toa(nm("gb")), toa(nm("gc")), toa(nm("gw")), toa(nm("gz")), toa(nm("gi"))}},
	}
}

var ptrRe = regexp.MustCompile(`0x[0-9a-f]+`)

// diffTail returns a from shortly before the first position where it differs from b.
func diffTail(a, b string) string {
	i := 0
	for i < len(a) && i < len(b) && a[i] == b[i] {
		i++
	}
	if i > 80 {
		return "..." + a[i-80:]
	}
	return a
}

type sufObs struct {
	V         val.Value
	Out, Errc string
	Trace     string // the backtrace lines of the error report without their code addresses
}

var traceLineRe = regexp.MustCompile(`(?m)^IP: \d+ (.*)$`)

// traceShape keeps what a backtrace says independently of where the code sits: the call lines (name, arguments)
// and any line in which the report gives up.
func traceShape(report string) string {
	var sb strings.Builder
	for _, m := range traceLineRe.FindAllStringSubmatch(report, -1) {
		sb.WriteString(m[1] + "\n")
	}
	for _, l := range strings.Split(report, "\n") {
		if strings.Contains(l, "giving up") || strings.Contains(l, "No debug info") {
			sb.WriteString(l + "\n")
		}
	}
	return ptrRe.ReplaceAllString(sb.String(), "0x")
}

func c08Case(ctx *core.Ctx, idx int) core.Result {
	r := core.CaseRng(ctx.Seed, "C08/twin", idx)
	var res core.Result
	doOut := idx%2 == 0
	o := gen.DefaultOpts()
	o.MaxDepth = r.Range(1, 3)
	g := gen.New(r, o)
	// ga..gc and the probe names always exist so that the final snapshot never renders nil
	prefix := []ast.Node{ast.Assign{Name: "ga", Value: il(1)}, ast.Assign{Name: "gb", Value: il(2)}, ast.Assign{Name: "gc", Value: il(3)}, ast.Assign{Name: "gw", Value: il(4)}, ast.Assign{Name: "gz", Value: il(5)}, ast.Assign{Name: "gi", Value: il(6)}}
	prefix = append(prefix, ast.Assign{Name: "gfn", Value: il(0)},
		ast.Assign{Name: "zkeep", Value: ast.FuncLit{Params: []string{"n"}, Body: ast.ArrayLit{Elems: []ast.Node{nm("n"), ast.StrLit{V: "base"}}}}},
		ast.Assign{Name: "zkrec", Value: ast.FuncLit{Params: []string{"q"}, Body: ast.If{Cond: ast.Binary{Op: "<=", L: nm("q"), R: il(0)}, Then: il(0), Else: ast.Binary{Op: "+", L: il(1), R: icall("zkrec", ast.Binary{Op: "-", L: nm("q"), R: il(1)})}}}},
		ast.Assign{Name: "zkgen", Value: ast.FuncLit{Params: []string{"q"}, Body: ast.Block{Stmts: []ast.Node{icall("zkrec", nm("q")), ast.Yield{X: nm("q")}, icall("zkrec", nm("q"))}}}})
	prefix = append(prefix,
		ast.Assign{Name: "zkboom", Value: ast.FuncLit{Params: []string{"d", "e"}, Body: ast.If{Cond: ast.Binary{Op: "<=", L: nm("d"), R: il(0)}, Then: ast.Binary{Op: "/", L: nm("e"), R: nm("d")}, Else: ast.Binary{Op: "+", L: il(1), R: icall("zkboom", ast.Binary{Op: "-", L: nm("d"), R: il(1)}, nm("e"))}}}},
		ast.Assign{Name: "zkcall", Value: ast.FuncLit{Params: []string{"n"}, Body: ast.Binary{Op: "+", L: icall("zkboom", nm("n"), il(77)), R: il(2)}}})
	prefix = append(prefix, g.Session(r.Range(0, 3))...)
	fstmts, where := failingStatements(r)
	parseErr := ""
	if where == "parse-error" {
		parseErr = parseErrTexts[r.Intn(len(parseErrTexts))]
	}
	// first thing after the failure: a function (defined before it) that reads locals it assigns only on another
	// path; they are nil, whatever the failed statement left in the stack slots they now occupy
	prefix = append(prefix, ast.Assign{Name: "zun", Value: ast.FuncLit{Params: []string{"c", "pad"}, Body: ast.Block{Stmts: []ast.Node{
		ast.If{Cond: nm("c"), Then: ast.Assign{Name: "zx", Value: il(1)}}, ast.If{Cond: nm("c"), Then: ast.Assign{Name: "zy", Value: il(2)}}, ast.If{Cond: nm("c"), Then: ast.Assign{Name: "zw", Value: il(3)}},
		nm([]string{"zx", "zy", "zw"}[r.Intn(3)])}}}})
	suffix := append([]ast.Node{icall("zun", ast.BoolLit{V: false}, il(0))}, append(g.Session(r.Range(0, 2)), suffixProbes(r)...)...)
	res.Hash = core.Mix(sessionHash(append(append(append([]ast.Node{}, prefix...), fstmts...), suffix...)) ^ core.HashString(parseErr) ^ uint64(idx%2))
	in := map[string]any{"prefix": sessionText(prefix), "failing": sessionText(fstmts), "parse_error_text": parseErr, "suffix": sessionText(suffix), "failure_position": where, "repl_mode": doOut}
	stdin := "only one line\n"

	// reference: runs A, tells which globals F completed
	ref := rs.New()
	ref.SetStdin(stdin)
	for _, st := range prefix {
		w := ref.Exec(st)
		if w.Ambiguous != "" || w.Budget || w.TooBig {
			res.Verdict, res.Reason = core.Dropped, "prefix outside the agreed region"
			return res
		}
	}
	before := map[string]string{}
	for k, v := range ref.Globals {
		before[k] = val.Debug(v)
	}
	failures := 0
	for _, st := range fstmts {
		w := ref.Exec(st)
		if w.Ambiguous != "" || w.Budget || w.TooBig {
			res.Verdict, res.Reason = core.Dropped, "failing part outside the agreed region: "+w.Ambiguous
			return res
		}
		if w.Err != "" {
			failures++
			res.Tag("err:" + w.Err)
		}
	}
	if parseErr == "" && failures == 0 {
		res.Verdict, res.Reason = core.Dropped, "the planted failure was not reached"
		return res
	}
	// G: literal assignments for every global that F created or changed
	var gstmts []ast.Node
	for k, v := range ref.Globals {
		if before[k] == val.Debug(v) {
			continue
		}
		if v.K == val.Fun {
			// function globals defined by F (helpers): re-create them by re-running their definitions in B
			continue
		}
		lit, ok := literalOf(v)
		if !ok {
			res.Verdict, res.Reason = core.Dropped, "a completed global is not literal-printable"
			return res
		}
		gstmts = append(gstmts, ast.Assign{Name: k, Value: lit})
	}
	// helper function definitions inside F never fail: B replays them as they are (also the ones that
	// sit in front of the fault inside a failing block)
	var helperDefs []ast.Node
	for _, st := range fstmts {
		if a, ok := st.(ast.Assign); ok {
			if _, isFn := a.Value.(ast.FuncLit); isFn {
				helperDefs = append(helperDefs, st)
			}
		}
		if b, ok := st.(ast.Block); ok {
			for _, bs := range b.Stmts {
				if a, ok := bs.(ast.Assign); ok && (a.Name == "zkeep" || a.Name == "zkcall") {
					helperDefs = append(helperDefs, bs)
				}
			}
		}
	}
	// a closure F left in gfn: the twin gets a constant function with the value the reference says the closure returns
	if v, ok := ref.Globals["gfn"]; ok && v.K == val.Fun {
		w := ref.Exec(icall("gfn"))
		lit, okl := literalOf(w.Value)
		if w.Err != "" || w.Ambiguous != "" || !okl {
			res.Verdict, res.Reason = core.Dropped, "the kept closure has no literal value"
			return res
		}
		helperDefs = append(helperDefs, ast.Assign{Name: "gfn", Value: ast.FuncLit{Body: lit}})
	}
	wantSuffix := make([]rs.Result, len(suffix))
	for i, st := range suffix {
		wantSuffix[i] = ref.Exec(st)
		if wantSuffix[i].Ambiguous != "" || wantSuffix[i].Budget || wantSuffix[i].TooBig {
			res.Verdict, res.Reason = core.Dropped, "suffix outside the agreed region: "+wantSuffix[i].Ambiguous
			return res
		}
	}

	// what the REPL/file loop prints for the failing part and the suffix, rebuilt from session A's observations
	var expectA strings.Builder
	note := func(ob calcrun.StmtObs) {
		expectA.WriteString(ob.Out)
		expectA.WriteString(ob.Report)
		if doOut && ob.Err == "" {
			expectA.WriteString("> " + val.Display(ob.Value) + "\n")
		}
	}
	run := func(mid []ast.Node, midText string, checkF bool) ([]sufObs, string) {
		calcrun.SetStdin(stdin)
		ses := calcrun.NewSession()
		exec := func(st ast.Node) (calcrun.StmtObs, string) {
			o := ses.Exec(ast.Print(st, nil), doOut)
			if len(o) != 1 || o[0].Panic != nil || o[0].Parse != nil || o[0].StepLimit || o[0].Hang != "" {
				d := "aborted"
				if len(o) == 1 && o[0].Panic != nil {
					d = "panic: " + o[0].Panic.Msg + " at " + o[0].Panic.Site
				}
				return calcrun.StmtObs{}, fmt.Sprintf("%q: %s", trunc(ast.Print(st, nil), 200), d)
			}
			return o[0], ""
		}
		for _, st := range prefix {
			if _, bad := exec(st); bad != "" {
				return nil, "prefix " + bad
			}
		}
		if midText != "" {
			st0 := ses.State()
			g0 := fmt.Sprint(ses.Globals())
			o := ses.Exec(midText, doOut)
			if len(o) != 1 || o[0].Parse == nil {
				return nil, "INCONCLUSIVE parse error text was accepted"
			}
			// the way the REPL and file modes handle it: parse, display the error, execute nothing
			var ppan any
			pout := ""
			func() {
				defer func() { ppan = recover() }()
				pout = calcrun.Capture(func() { node.VerifProcessInput(midText, parser.Type{}, ses.VM, doOut) })
			}()
			if ppan != nil {
				return nil, fmt.Sprintf("reporting the syntax error of %q aborted the interpreter: %v", midText, ppan)
			}
			if strings.Count(pout, "LEAK") > strings.Count(midText, "LEAK") { // (the error display echoes the source line once)
				return nil, fmt.Sprintf("an input with a syntax error was partly executed: %q printed %q", midText, pout)
			}
			if !strings.Contains(pout, "^") {
				return nil, fmt.Sprintf("no error display for %q: %q", midText, pout)
			}
			if ses.State() != st0 || fmt.Sprint(ses.Globals()) != g0 {
				return nil, fmt.Sprintf("a statement that failed to parse changed the session: %+v -> %+v", st0, ses.State())
			}
		}
		for _, st := range mid {
			ob, bad := exec(st)
			if bad != "" {
				return nil, "failing statement " + bad
			}
			if checkF {
				note(ob)
			}
			if checkF && ob.Err != "" {
				a := ob.After
				if a.Residue() != [4]int{0, 0, 0, 0} || a.MainIP != a.CS {
					return nil, fmt.Sprintf("after the failing statement %q the machine is not clean: %+v", trunc(ast.Print(st, nil), 200), a)
				}
			}
		}
		var out []sufObs
		for _, st := range suffix {
			ob, bad := exec(st)
			if bad != "" {
				return nil, "suffix " + bad
			}
			if ob.After.Residue() != ob.Before.Residue() && ob.Err == "" {
				return nil, fmt.Sprintf("suffix statement %q leaves residue %v -> %v", trunc(ast.Print(st, nil), 200), ob.Before.Residue(), ob.After.Residue())
			}
			if checkF {
				note(ob)
			}
			out = append(out, sufObs{ob.Value, ob.Out, ob.Err, traceShape(ob.Report)})
		}
		return out, ""
	}
	a, bad := run(fstmts, parseErr, true)
	if bad == "INCONCLUSIVE parse error text was accepted" {
		res.Verdict, res.Reason = core.Dropped, "parse error text accepted"
		return res
	}
	if bad != "" {
		res.Verdict = core.Violated
		res.Viol = &core.Violation{Monitor: "session-survives", Detail: "session with the failure: " + bad, Input: in}
		return res
	}
	b, bad := run(append(append([]ast.Node{}, helperDefs...), gstmts...), "", false)
	if bad != "" {
		res.Verdict, res.Reason = core.Inconclusive, "twin session aborted: "+bad
		return res
	}
	in["twin_replacement"] = sessionText(append(append([]ast.Node{}, helperDefs...), gstmts...))
	for i := range suffix {
		w := wantSuffix[i]
		same := a[i].Errc == b[i].Errc && a[i].Out == b[i].Out && (!doOut || a[i].Errc != "" || val.Same(a[i].V, b[i].V))
		if same && a[i].Trace != b[i].Trace {
			res.Verdict = core.Violated
			res.Viol = &core.Violation{Monitor: "twin-run", Detail: fmt.Sprintf("suffix statement %d %q fails in both sessions, but its error report lists the calls %q after the failure and %q in the twin session that never saw it",
				i, trunc(ast.Print(suffix[i], nil), 160), trunc(a[i].Trace, 400), trunc(b[i].Trace, 400)), Input: in}
			return res
		}
		if !same {
			res.Verdict = core.Violated
			res.Viol = &core.Violation{Monitor: "twin-run", Detail: fmt.Sprintf("suffix statement %d %q: after the failure (value %s, output %q, error %q) but in the twin session that never saw it (value %s, output %q, error %q)",
				i, trunc(ast.Print(suffix[i], nil), 160), val.Debug(a[i].V), trunc(a[i].Out, 100), a[i].Errc, val.Debug(b[i].V), trunc(b[i].Out, 100), b[i].Errc), Input: in}
			return res
		}
		if a[i].Errc != w.Err || a[i].Out != w.Out || (doOut && w.Err == "" && !val.Same(a[i].V, w.Value)) {
			res.Verdict = core.Violated
			res.Viol = &core.Violation{Monitor: "differential", Detail: fmt.Sprintf("suffix statement %d %q: (value %s, output %q, error %q), reference (value %s, output %q, error %q)",
				i, trunc(ast.Print(suffix[i], nil), 160), val.Debug(a[i].V), trunc(a[i].Out, 100), a[i].Errc, val.Debug(w.Value), trunc(w.Out, 100), w.Err), Input: in}
			return res
		}
		res.Add("suffix_statements_compared", 1)
	}
	if parseErr == "" {
		// input grouping: the REPL/file loop hands processInput one complete input at a time, and an input may
		// hold several statements. The failing part and the suffix given as ONE input must print and leave
		// exactly what the same statements print and leave when given one by one.
		all := append(append([]ast.Node{}, fstmts...), suffix...)
		texts := make([]string, len(all))
		for i, st := range all {
			texts[i] = ast.Print(st, nil)
		}
		feed := func(inputs []string) (out string, globals string, bad string) {
			calcrun.SetStdin(stdin)
			ses := calcrun.NewSession()
			for _, st := range prefix {
				if o := ses.Exec(ast.Print(st, nil), doOut); len(o) != 1 || o[0].Panic != nil {
					return "", "", "prefix aborted"
				}
			}
			for _, inp := range inputs {
				var pan any
				func() {
					defer func() { pan = recover() }()
					out += calcrun.Capture(func() { node.VerifProcessInput(inp, parser.Type{}, ses.VM, doOut) })
				}()
				if pan != nil {
					return out, "", fmt.Sprintf("processInput aborted on %q: %v", trunc(inp, 200), pan)
				}
			}
			return ptrRe.ReplaceAllString(out, "PTR"), fmt.Sprint(ses.Globals()), ""
		}
		// statements of one input stand side by side on a line (a line break outside brackets ends the input).
		// Greedy grouping: a statement joins the current input as long as the joined text still parses into
		// the very same statements (an array literal after an expression would become an index, etc.).
		parsesAs := func(text string, parts []string) bool {
			nodes, perr, pan, hang, _, _ := calcrun.Parse(text)
			if perr != nil || pan != nil || hang != "" || len(nodes) != len(parts) {
				return false
			}
			for i := range nodes {
				one, perr1, _, _, _, _ := calcrun.Parse(parts[i])
				if perr1 != nil || len(one) != 1 || ast.Sexp(calcrun.FromNode(nodes[i])) != ast.Sexp(calcrun.FromNode(one[0])) {
					return false
				}
			}
			return true
		}
		var grouped []string
		var cur []string
		maxGroup := 0
		for _, t := range texts {
			if len(cur) > 0 && parsesAs(strings.Join(append(append([]string{}, cur...), t), " "), append(append([]string{}, cur...), t)) {
				cur = append(cur, t)
			} else {
				if len(cur) > 0 {
					grouped = append(grouped, strings.Join(cur, " "))
				}
				cur = []string{t}
			}
			if len(cur) > maxGroup {
				maxGroup = len(cur)
			}
		}
		grouped = append(grouped, strings.Join(cur, " "))
		sameParse := len(grouped) < len(texts)
		if !sameParse {
			res.Add("grouped_inputs_not_equivalent", 1)
		}
		res.SetMax("max_statements_in_one_input", maxGroup)
		o1, g1, bad1 := "", "", ""
		oN, gN, badN := "", "", ""
		if sameParse {
			o1, g1, bad1 = feed(texts)
			oN, gN, badN = feed(grouped)
		}
		// the loop's own statement handling against the statement-by-statement execution of session A
		if oA, gA, badA := feed(texts); badA != "" {
			res.Verdict = core.Violated
			res.Viol = &core.Violation{Monitor: "session-survives", Detail: "through processInput: " + badA, Input: in}
			return res
		} else if want := ptrRe.ReplaceAllString(expectA.String(), "PTR"); oA != want {
			res.Verdict = core.Violated
			res.Viol = &core.Violation{Monitor: "repl-loop", Detail: fmt.Sprintf("the failing part and the suffix entered through the REPL/file loop (processInput) print %q; executed statement by statement they print %q", trunc(diffTail(oA, want), 500), trunc(diffTail(want, oA), 500)), Input: in}
			return res
		} else {
			_ = gA
			res.Add("repl_loop_sessions_compared", 1)
		}
		switch {
		case !sameParse:
		case bad1 != "" || badN != "":
			res.Verdict = core.Violated
			res.Viol = &core.Violation{Monitor: "session-survives", Detail: "through processInput: " + bad1 + " " + badN, Input: in}
			return res
		case o1 != oN || g1 != gN:
			res.Verdict = core.Violated
			d := fmt.Sprintf("the failing part and the suffix given as one input print %q and leave globals %s; given statement by statement they print %q and leave %s", trunc(oN, 600), trunc(gN, 300), trunc(o1, 600), trunc(g1, 300))
			res.Viol = &core.Violation{Monitor: "input-grouping", Detail: d, Input: in}
			return res
		}
		if sameParse {
			res.Add("grouped_inputs_compared", 1)
		}
	}
	res.Add("failures_injected", failures)
	if parseErr != "" {
		res.Add("parse_errors_injected", 1)
	}
	res.Tag("failure-at:" + where)
	res.Verdict = core.Held
	res.Nontrivial = true
	res.Sample = in
	return res
}

func init() {
	register(&core.Property{
		ID:          "C08",
		Rule:        "twin sessions: a typed prefix, a failing part F (parse error texts; the seven runtime error classes raised at top level after 0..2 completed global assignments, at call depth 1..200, in while/for bodies at the k-th iteration, inside a generator after its k-th yield, inside a nested generator consumed by a zipped loop, inside a returned closure, inside a loop body of a function calling into depth, several failures in a row) and a suffix that reuses frames (recursion), contexts (zipped loop), closures, a top-level return out of a for loop and a snapshot of all probe globals; the twin replaces F by literal assignments of exactly the globals the reference says F completed. Suffix observations must be equal between the twins and equal to the reference; the machine must be clean right after every failure and untouched by a parse error; the failing part and the suffix handed to processInput as one multi-statement input must print and leave exactly what they do when handed over one statement at a time. REPL and script mode. Every case is non-trivial; distinct by session text and mode.",
		Assumptions: []string{"globals completed by F are literal-printable by construction (ints, strings, arrays); helper function definitions of F are replayed verbatim in the twin"},
		Families: []core.Family{
			{Name: "twin", Count: countFn(10000, 120000), Run: c08Case},
		},
		Floors: []core.Floor{{Key: "suffix_statements_compared", Quick: 20000, Thor: 800000}, {Key: "failures_injected", Quick: 2500, Thor: 100000}, {Key: "parse_errors_injected", Quick: 150, Thor: 6000}, {Key: "grouped_inputs_compared", Quick: 2000, Thor: 80000}, {Key: "repl_loop_sessions_compared", Quick: 2000, Thor: 80000}, {Key: "tag:failure-at:", Quick: 12, Thor: 12}, {Key: "tag:err:", Quick: 7, Thor: 7}},
	})
}
