package props

import (
	"fmt"
	"strings"

	"github.com/paulsonkoly/calc/memory"

	"verif/ast"
	"verif/calcrun"
	"verif/core"
	"verif/rs"
	"verif/val"
)

// Differential monitor: one session is executed statement by statement by the
// reference semantics and by the real pipeline; value tree, program output
// and error class must agree. The universal monitors (no-abort, residue) ride
// along (DESIGN.md 4.5).

type diffOpts struct {
	DoOut    bool   // ByteCode + Run(true) (REPL) or ByteCodeNoStck + Run(false) (script)
	Stress   string // plain | tight | pregrown | recycle
	Stdin    string
	Layout   *ast.Layout
	Residue  bool   // check (sp, frames, closures, contexts) after each statement
	Globals  bool   // compare the complete global frame with the reference after each statement
	Marker   string // a marker that must never appear in the program output (self-checks written in calc)
	StepMult int
}

type stmtPair struct {
	Src  string
	RS   rs.Result
	Calc calcrun.StmtObs
}

type diffOutcome struct {
	Verdict                    string // core verdicts; Dropped/Inconclusive carry Reason
	Reason                     string
	Monitor                    string
	Detail                     string
	Pairs                      []stmtPair
	Executed                   int
	Stats                      rs.Stats
	Shapes                     []string
	Grow, CloneNew, CloneReuse int
	MaxVMSteps                 int
	Panic                      *calcrun.PanicInfo
}

func sameValue(a, b val.Value) bool { return val.Same(a, b) }

// runDiff executes the session in one mode.
func runDiff(stmts []ast.Node, o diffOpts) (out diffOutcome) {
	ref := rs.New()
	// the VM binds its input reader when it is created
	calcrun.SetStdin(o.Stdin)
	ref.SetStdin(o.Stdin)
	ses := calcrun.NewSession()
	memory.VerifTight = o.Stress == "tight"
	defer func() { memory.VerifTight = false }()
	if o.Stress == "pregrown" {
		ses.Exec("vpre = (n) -> if n <= 0 0 else 1 + vpre(n-1)", false)
		ses.Exec("vpre(3000)", false)
		ref.Exec(ast.Assign{Name: "vpre", Value: ast.FuncLit{Params: []string{"n"}, Body: ast.IntLit{V: 0}}})
	}
	out.Verdict = core.Held
	for i, st := range stmts {
		if d := ast.Denotable(st); d != "" {
			out.Verdict, out.Reason = core.Inconclusive, "generator produced an undenotable tree: "+d
			return
		}
		want := ref.Exec(st)
		out.Stats.Steps += want.Stats.Steps
		out.Stats.Calls += want.Stats.Calls
		out.Stats.LoopIters += want.Stats.LoopIters
		out.Stats.Yields += want.Stats.Yields
		out.Stats.ForLoops += want.Stats.ForLoops
		out.Stats.Closures += want.Stats.Closures
		out.Stats.Writes += want.Stats.Writes
		if want.Stats.MaxDepth > out.Stats.MaxDepth {
			out.Stats.MaxDepth = want.Stats.MaxDepth
		}
		switch {
		case want.Ambiguous != "":
			if i == 0 {
				out.Verdict, out.Reason = core.Dropped, "outside the agreed region: "+want.Ambiguous
			}
			return
		case want.Budget:
			if i == 0 {
				out.Verdict, out.Reason = core.Inconclusive, "reference step budget"
			}
			return
		case want.TooBig:
			if i == 0 {
				out.Verdict, out.Reason = core.Dropped, "value too big"
			}
			return
		}
		src := ast.Print(st, o.Layout)
		mult := o.StepMult
		if mult == 0 {
			mult = 200
		}
		ses.StepLimit = mult*want.Stats.Steps + 100000
		// every iterator context a loop forks costs the reference at least one evaluation step: a statement that forks
		// more contexts than that is running away (and, with large stacks, slowly)
		ses.ForkLimit = want.Stats.Steps + 1000
		obs := ses.Exec(src, o.DoOut)
		if len(obs) != 1 {
			out.Verdict, out.Monitor = core.Violated, "differential"
			out.Detail = fmt.Sprintf("statement %d: text %q executed as %d statements", i, src, len(obs))
			return
		}
		got := obs[0]
		out.Pairs = append(out.Pairs, stmtPair{src, want, got})
		out.Executed++
		out.Grow += got.Grow
		out.CloneNew += got.CloneNew
		out.CloneReuse += got.CloneReuse
		if got.Steps > out.MaxVMSteps {
			out.MaxVMSteps = got.Steps
		}
		fail := func(mon, d string) {
			out.Verdict, out.Monitor = core.Violated, mon
			out.Detail = fmt.Sprintf("statement %d %q: %s", i, src, d)
		}
		switch {
		case got.Parse != nil:
			fail("differential", fmt.Sprintf("text written by the documented grammar was rejected: %s", got.Parse.Msg))
			return
		case got.Hang != "":
			fail("no-abort", "front end did not terminate: "+got.Hang)
			return
		case got.Panic != nil:
			out.Panic = got.Panic
			fail("no-abort", fmt.Sprintf("interpreter panicked: %s (at %s, opcode %s)", got.Panic.Msg, got.Panic.Site, got.Panic.Op))
			return
		case got.StepLimit:
			fail("no-abort", fmt.Sprintf("VM exceeded %d steps (or forked more than %d iterator contexts) where the reference needed %d evaluation steps", ses.StepLimit, ses.ForkLimit, want.Stats.Steps))
			return
		}
		if got.Err != want.Err {
			fail("differential", fmt.Sprintf("error class %q, reference %q (reference failing op %s %s)", got.Err, want.Err, want.FailOp, debugList(want.FailArgs)))
			return
		}
		if got.Out != want.Out {
			fail("differential", fmt.Sprintf("output %q, reference %q", trunc(got.Out, 300), trunc(want.Out, 300)))
			return
		}
		if want.Err == "" && o.DoOut && !sameValue(got.Value, want.Value) {
			fail("differential", fmt.Sprintf("value %s, reference %s", trunc(val.Debug(got.Value), 300), trunc(val.Debug(want.Value), 300)))
			return
		}
		if o.Marker != "" && strings.Contains(got.Out, o.Marker) {
			fail("self-check", fmt.Sprintf("the program's own before/after comparison fired: %q", trunc(got.Out, 400)))
			return
		}
		if o.Globals {
			gg := ses.Globals()
			for name, v := range ref.Globals {
				if name == "vpre" {
					continue
				}
				if gv, ok := gg[name]; !ok || gv != val.Debug(v) {
					fail("globals-frame", fmt.Sprintf("global %s is %s, reference %s", name, trunc(gv, 200), trunc(val.Debug(v), 200)))
					return
				}
			}
			for name := range gg {
				if _, ok := ref.Globals[name]; !ok && name != "vpre" {
					fail("globals-frame", fmt.Sprintf("global %s = %s exists although no top-level statement assigned it", name, trunc(gg[name], 200)))
					return
				}
			}
		}
		if o.Residue {
			if want.Err != "" {
				if got.After.Residue() != [4]int{0, 0, 0, 0} || got.After.MainIP != got.After.CS {
					fail("residue", fmt.Sprintf("after a failed statement the machine is not clean: %+v", got.After))
					return
				}
			} else if got.After.Residue() != got.Before.Residue() {
				fail("residue", fmt.Sprintf("machine state before %v after %v (sp, frames, closures, contexts)", got.Before.Residue(), got.After.Residue()))
				return
			}
		}
	}
	return
}

func debugList(vs []val.Value) string {
	var p []string
	for _, v := range vs {
		p = append(p, val.Debug(v))
	}
	return "(" + strings.Join(p, ", ") + ")"
}

func sessionText(stmts []ast.Node) []string {
	r := make([]string, len(stmts))
	for i, s := range stmts {
		r[i] = ast.Print(s, nil)
	}
	return r
}

func sessionHash(stmts []ast.Node) uint64 {
	h := uint64(1469598103934665603)
	for _, s := range stmts {
		h = core.Mix(h ^ core.HashString(ast.Sexp(s)))
	}
	return h
}

func setTight(b bool) { memory.VerifTight = b }
