package props

import (
	"fmt"
	"os"
	"strings"

	"verif/ast"
	"verif/calcrun"
	"verif/rs"
	"verif/val"
)

// DebugRun executes a session file (statements separated by lines holding
// %%) on calc and on the reference semantics and prints both (tooling, not a check).
func DebugRun(path string, doOut bool) {
	b, err := os.ReadFile(path)
	if err != nil {
		fmt.Println(err)
		return
	}
	ses := calcrun.NewSession()
	ref := rs.New()
	for i, src := range strings.Split(string(b), "\n%%\n") {
		src = strings.TrimRight(src, "\n")
		fmt.Printf("--- [%d] %s\n", i, src)
		nodes, perr, _, _, _, _ := calcrun.Parse(src)
		if perr != nil {
			fmt.Printf("parse error: %s [%d,%d)\n", perr.Msg, perr.From, perr.To)
			continue
		}
		for _, n := range nodes {
			t := calcrun.FromNode(n)
			w := ref.Exec(t)
			fmt.Printf("RS:   value=%s err=%q out=%q ambiguous=%q budget=%v failop=%s %v\n", val.Debug(w.Value), w.Err, w.Out, w.Ambiguous, w.Budget, w.FailOp, w.FailArgs)
			_ = ast.Sexp
		}
		for _, o := range ses.Exec(src, doOut) {
			fmt.Printf("calc: value=%s err=%q out=%q steps=%d state %v -> %v\n", val.Debug(o.Value), o.Err, o.Out, o.Steps, o.Before.Residue(), o.After.Residue())
			if o.Panic != nil {
				fmt.Printf("PANIC %s at %s op %s\n%s\n", o.Panic.Msg, o.Panic.Site, o.Panic.Op, o.Panic.Stack)
			}
			if o.Report != "" {
				fmt.Print(o.Report)
			}
		}
	}
}
