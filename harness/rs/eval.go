package rs

import (
	"fmt"
	"iter"
	"strconv"
	"strings"

	"verif/ast"
	"verif/val"
)

func litInt(v int64) any     { return val.IntV(v) }
func litFloat(v float64) any { return val.FloatV(v) }
func litBool(v bool) any     { return val.BoolV(v) }
func litStr(v string) any    { return val.StrV(v) }

// Closure is a function value.
type Closure struct {
	fn  *rFunc
	env *activation // activation of the defining function call (nil at top level)
}

// activation is one function call's variable store.
type activation struct {
	vars     []val.Value
	fn       *rFunc
	env      *activation // captured activation (of the function that defined fn)
	callName string      // name the function was called by
	// fork bookkeeping: a generator runs on a copy of its consumer's activation
	forkOf   *activation
	forkVers []int
	vers     []int // per-variable write counters
}

type coroutine struct {
	parent  *coroutine
	yieldFn func(val.Value) bool
	calls   []*activation // active calls, outermost first (the forked base first for generators)
	depth   int
}

// control-flow and failure signals
type rsError struct {
	class string
	trace []TraceCtx
}
type ambiguous struct{ why string }
type budget struct{}
type tooBig struct{}
type abandon struct{}

// TraceFrame is one expected backtrace line.
type TraceFrame struct {
	Name string
	Args []string // rendered (abbreviated like the report) current parameter values
}

// TraceCtx is the expected backtrace of one memory context.
type TraceCtx struct{ Frames []TraceFrame }

// Stats describes what a statement exercised (used for non-triviality).
type Stats struct {
	Steps, Calls, LoopIters, Yields, ForLoops, Closures, MaxDepth, Writes int
}

// Result of one top-level statement.
type Result struct {
	Value     val.Value
	Err       string // error class, "" none
	Out       string
	Ambiguous string // non-empty: the statement relied on something the README leaves open
	Budget    bool   // step budget exhausted
	TooBig    bool
	Trace     []TraceCtx // expected backtrace at the error, failing context first
	FailOp    string     // description of the failing operation
	FailArgs  []val.Value
	Stats     Stats
	// Completed lists the global assignments completed, in order.
	Completed []string
}

// Interp is one reference session.
type Interp struct {
	Globals      map[string]val.Value
	out          strings.Builder
	stdin        []string
	stdinPos     int
	steps        int
	Budget       int
	SizeLimit    int
	MaxCallDepth int
	size         int
	cur          *coroutine
	root         *coroutine
	res          *resolver
	stats        Stats
	completed    []string
	failOp       string
	failArgs     []val.Value
	// Variant switches (DESIGN 3.7): emulate catalogued defects for known-finding matchers.
	Variant map[string]bool
}

// New creates a session with the built-in functions bound.
func New() *Interp {
	in := &Interp{Globals: map[string]val.Value{}, Budget: 1000000, SizeLimit: 1000000, MaxCallDepth: 40000, res: &resolver{}, Variant: map[string]bool{}}
	in.root = &coroutine{}
	in.cur = in.root
	for name, f := range builtins(in.res) {
		in.Globals[name] = val.FunV(&Closure{fn: f})
	}
	return in
}

// SetStdin sets what read() consumes.
func (in *Interp) SetStdin(text string) {
	in.stdin = nil
	in.stdinPos = 0
	for len(text) > 0 {
		i := strings.IndexByte(text, '\n')
		if i < 0 {
			// a last line without newline is a read error for ReadString('\n')
			break
		}
		in.stdin = append(in.stdin, text[:i+1])
		text = text[i+1:]
	}
}

func builtins(r *resolver) map[string]*rFunc {
	mk := func(params []string, body ast.Node) *rFunc {
		f := r.node(ast.FuncLit{Params: params, Body: body}).(rFunc)
		return &f
	}
	n, m, x, i := ast.Name{N: "n"}, ast.Name{N: "m"}, ast.Name{N: "x"}, ast.Name{N: "i"}
	one := ast.IntLit{V: 1}
	b := map[string]*rFunc{}
	// README: fromto = (n, m) -> { while n < m { yield n ; n = n + 1 } }
	b["fromto"] = mk([]string{"n", "m"}, ast.While{Cond: ast.Binary{Op: "<", L: n, R: m}, Body: ast.Block{Stmts: []ast.Node{ast.Yield{X: n}, ast.Assign{Name: "n", Value: ast.Binary{Op: "+", L: n, R: one}}}}})
	// "elems and indices can also be implemented in a similar fashion"
	b["elems"] = mk([]string{"x"}, ast.Block{Stmts: []ast.Node{ast.Assign{Name: "i", Value: ast.IntLit{V: 0}},
		ast.While{Cond: ast.Binary{Op: "<", L: i, R: ast.Unary{Op: "#", X: x}}, Body: ast.Block{Stmts: []ast.Node{ast.Yield{X: ast.Index{X: x, I: i}}, ast.Assign{Name: "i", Value: ast.Binary{Op: "+", L: i, R: one}}}}}}})
	b["indices"] = mk([]string{"x"}, ast.Block{Stmts: []ast.Node{ast.Assign{Name: "i", Value: ast.IntLit{V: 0}},
		ast.While{Cond: ast.Binary{Op: "<", L: i, R: ast.Unary{Op: "#", X: x}}, Body: ast.Block{Stmts: []ast.Node{ast.Yield{X: i}, ast.Assign{Name: "i", Value: ast.Binary{Op: "+", L: i, R: one}}}}}}})
	for _, nm := range []string{"write", "toa", "aton", "exit"} {
		f := rFunc{params: []string{"v"}, nlocals: 1, names: []string{"v"}, body: rBuiltin{name: nm, arg: rVar{kind: vLocal, idx: 0, name: "v"}}}
		b[nm] = &f
	}
	f := rFunc{params: nil, body: rBuiltin{name: "read"}}
	b["read"] = &f
	return b
}

func (in *Interp) tick() {
	in.steps++
	if in.steps > in.Budget {
		panic(budget{})
	}
}

func (in *Interp) account(n int) {
	in.size += n
	if in.size > in.SizeLimit {
		panic(tooBig{})
	}
}

func abbrev(v val.Value) string {
	s := val.Render(v)
	if len(s) > 20 {
		return s[:17] + "..."
	}
	return s
}

func (in *Interp) snapshotTrace() []TraceCtx {
	var out []TraceCtx
	for c := in.cur; c != nil; c = c.parent {
		var t TraceCtx
		for i := len(c.calls) - 1; i >= 0; i-- {
			a := c.calls[i]
			fr := TraceFrame{Name: a.callName}
			for p := range a.fn.params {
				fr.Args = append(fr.Args, abbrev(a.vars[p]))
			}
			t.Frames = append(t.Frames, fr)
		}
		out = append(out, t)
	}
	return out
}

func (in *Interp) fail(class string, op string, args ...val.Value) {
	in.failOp = op
	in.failArgs = args
	panic(rsError{class: class, trace: in.snapshotTrace()})
}

// Exec evaluates one top-level statement.
func (in *Interp) Exec(stmt ast.Node) (res Result) {
	in.out.Reset()
	in.steps = 0
	in.size = 0
	in.stats = Stats{}
	in.completed = nil
	in.cur = in.root
	in.root.calls = nil
	in.root.depth = 0
	defer func() {
		res.Out = in.out.String()
		res.Stats = in.stats
		res.Stats.Steps = in.steps
		res.Completed = in.completed
		if r := recover(); r != nil {
			in.cur = in.root
			switch e := r.(type) {
			case rsError:
				res.Err = e.class
				res.Trace = e.trace
				res.FailOp = in.failOp
				res.FailArgs = in.failArgs
			case ambiguous:
				res.Ambiguous = e.why
			case budget:
				res.Budget = true
			case tooBig:
				res.TooBig = true
			default:
				panic(r)
			}
		}
	}()
	n := in.res.node(stmt)
	v, _ := in.eval(n, nil)
	res.Value = v
	return
}

func (in *Interp) readVar(v rVar, act *activation) val.Value {
	switch v.kind {
	case vLocal:
		in.checkFork(act, v.idx)
		return act.vars[v.idx]
	case vCaptured:
		if act.env == nil || v.idx >= len(act.env.vars) {
			// the defining function's variable did not exist when the closure was built
			panic(ambiguous{"captured variable declared after the closure was created"})
		}
		in.checkFork(act.env, v.idx)
		return act.env.vars[v.idx]
	default:
		if g, ok := in.Globals[v.name]; ok {
			return g
		}
		return val.NilV
	}
}

// checkFork: a generator works on a copy of its consumer's variables; if the
// original has been reassigned since, the README does not say which value the
// generator sees.
func (in *Interp) checkFork(a *activation, idx int) {
	if a.forkOf != nil && idx < len(a.forkVers) && idx < len(a.forkOf.vers) && a.forkOf.vers[idx] != a.forkVers[idx] {
		panic(ambiguous{"generator reads a variable its loop body reassigned after the loop started"})
	}
}

func (in *Interp) writeVar(v rVar, act *activation, x val.Value) {
	if x.K == val.Nil {
		in.fail(val.ENil, "assign", x)
	}
	switch v.kind {
	case vLocal:
		act.vars[v.idx] = x
		act.vers[v.idx]++
	case vGlobal:
		in.Globals[v.name] = x
		in.completed = append(in.completed, v.name)
	default:
		panic("rs: write to captured variable")
	}
}

func (in *Interp) apply(o val.Outcome, op string, args ...val.Value) val.Value {
	switch o.Kind {
	case val.OVal:
		switch o.V.K {
		case val.Arr:
			in.account(len(o.V.A) + 1)
		case val.Str:
			in.account(len(o.V.S)/8 + 1)
		}
		return o.V
	case val.OErr:
		in.fail(o.Err, op, args...)
	case val.OAnyErr:
		// an absent operand in a calculation: README shows "nil error"
		nils := 0
		for _, a := range args {
			if a.K == val.Nil {
				nils++
			}
		}
		if strings.HasPrefix(op, "index") || strings.Contains(o.Why, "several") {
			panic(ambiguous{"which error: " + o.Why})
		}
		if nils > 0 {
			in.fail(val.ENil, op, args...)
		}
		panic(ambiguous{"which error: " + o.Why})
	default:
		panic(ambiguous{o.Why})
	}
	panic("unreachable")
}

type ctrl int

const (
	cNone ctrl = iota
	cReturn
)

func (in *Interp) eval(n rnode, act *activation) (val.Value, ctrl) {
	in.tick()
	switch x := n.(type) {
	case rLit:
		return x.v.(val.Value), cNone
	case rVar:
		return in.readVar(x, act), cNone
	case rUnary:
		a, _ := in.eval(x.x, act)
		return in.apply(val.Unary(x.op, a), "unary"+x.op, a), cNone
	case rBinary:
		a, _ := in.eval(x.l, act)
		if a.K == val.Nil {
			switch x.r.(type) {
			case rLit, rVar:
			default:
				// is the absent left operand reported before or after the right operand is evaluated?
				panic(ambiguous{"nil left operand with a right operand that has to be computed"})
			}
		}
		b, _ := in.eval(x.r, act)
		return in.apply(val.Binary(x.op, a, b), x.op, a, b), cNone
	case rIndex:
		a, _ := in.eval(x.x, act)
		i, _ := in.eval(x.i, act)
		return in.apply(val.IndexAt(a, i), "index", a, i), cNone
	case rSlice:
		a, _ := in.eval(x.x, act)
		i, _ := in.eval(x.i, act)
		j, _ := in.eval(x.j, act)
		return in.apply(val.Slice(a, i, j), "index2", a, i, j), cNone
	case rArray:
		es := make([]val.Value, len(x.elems))
		for k, e := range x.elems {
			es[k], _ = in.eval(e, act)
			if es[k].K == val.Nil {
				panic(ambiguous{"nil as an array literal element"})
			}
		}
		in.account(len(es) + 1)
		return val.ArrV(es), cNone
	case rFunc:
		in.stats.Closures++
		f := x
		return val.FunV(&Closure{fn: &f, env: act}), cNone
	case rCall:
		return in.call(x, act), cNone
	case rAssign:
		v, _ := in.eval(x.value, act)
		in.writeVar(x.dst, act, v)
		return v, cNone
	case rIf:
		c := in.evalCond(x.cond, act)
		if c.K != val.Bool {
			if c.K == val.Nil {
				panic(ambiguous{"nil condition: nil or type error"})
			}
			in.fail(val.EType, "condition", c)
		}
		if c.B {
			return in.eval(x.then, act)
		}
		if x.els != nil {
			return in.eval(x.els, act)
		}
		return val.NilV, cNone
	case rWhile:
		res := val.NilV
		for {
			c := in.evalCond(x.cond, act)
			if c.K != val.Bool {
				if c.K == val.Nil {
					panic(ambiguous{"nil condition: nil or type error"})
				}
				in.fail(val.EType, "condition", c)
			}
			if !c.B {
				return res, cNone
			}
			in.stats.LoopIters++
			v, ct := in.eval(x.body, act)
			if ct == cReturn {
				return v, ct
			}
			res = v
		}
	case rFor:
		return in.forLoop(x, act)
	case rReturn:
		v, _ := in.eval(x.x, act)
		return v, cReturn
	case rYield:
		v, _ := in.eval(x.x, act)
		if in.cur != in.root {
			in.stats.Yields++
			co := in.cur
			if !co.yieldFn(v) {
				panic(abandon{})
			}
			in.cur = co
		}
		return v, cNone
	case rBlock:
		var v val.Value
		for _, s := range x.stmts {
			var ct ctrl
			v, ct = in.eval(s, act)
			if ct == cReturn {
				return v, ct
			}
		}
		return v, cNone
	case rBuiltin:
		return in.builtin(x, act), cNone
	}
	panic(fmt.Sprintf("rs.eval: %T", n))
}

// evalCond evaluates a condition. `!e` with an absent e is an error either
// way, but whether it is the nil error of `!` or the type error of the
// condition is not documented.
func (in *Interp) evalCond(c rnode, act *activation) val.Value {
	if u, ok := c.(rUnary); ok && u.op == "!" {
		in.tick()
		a, _ := in.eval(u.x, act)
		if a.K == val.Nil {
			panic(ambiguous{"negated nil condition: nil or type error"})
		}
		return in.apply(val.Unary("!", a), "unary!", a)
	}
	v, _ := in.eval(c, act)
	return v
}

func (in *Interp) call(x rCall, act *activation) val.Value {
	args := make([]val.Value, len(x.args))
	for i, a := range x.args {
		args[i], _ = in.eval(a, act)
		if args[i].K == val.Nil {
			panic(ambiguous{"nil passed as an argument"})
		}
	}
	f := in.readVar(x.fn, act)
	if f.K != val.Fun {
		if f.K == val.Nil {
			panic(ambiguous{"calling an undefined name: nil or type error"})
		}
		in.fail(val.EType, "call", f)
	}
	cl := f.Fn.(*Closure)
	if len(cl.fn.params) != len(args) {
		in.fail(val.EArity, "call", f)
	}
	na := &activation{vars: make([]val.Value, cl.fn.nlocals), vers: make([]int, cl.fn.nlocals), fn: cl.fn, env: cl.env, callName: x.fn.name}
	copy(na.vars, args)
	in.stats.Calls++
	co := in.cur
	co.calls = append(co.calls, na)
	if d := len(co.calls) + co.depth; d > in.stats.MaxDepth {
		in.stats.MaxDepth = d
		if d > in.MaxCallDepth {
			// the reference recurses on the Go stack: runaway recursion of a generated program is a budget matter
			panic(budget{})
		}
	}
	v, _ := in.eval(cl.fn.body, na)
	// the coroutine may have been switched while evaluating; the call stack entry belongs to co
	co.calls = co.calls[:len(co.calls)-1]
	return v
}

func (in *Interp) forLoop(x rFor, act *activation) (val.Value, ctrl) {
	in.stats.ForLoops++
	k := in.cur
	type gen struct {
		next func() (val.Value, bool)
		stop func()
		co   *coroutine
	}
	gens := make([]*gen, len(x.iters))
	abandonAll := func() {
		for _, g := range gens {
			if g != nil {
				g.stop()
			}
		}
		in.cur = k
	}
	defer abandonAll()
	result := val.NilV
	for {
		for i := range x.iters {
			if gens[i] == nil {
				var fork *activation
				if act != nil {
					fork = &activation{vars: append([]val.Value{}, act.vars...), vers: make([]int, len(act.vars)), fn: act.fn, env: act.env, callName: act.callName,
						forkOf: act, forkVers: append([]int{}, act.vers...)}
				}
				co := &coroutine{parent: k, depth: k.depth + len(k.calls)}
				if fork != nil {
					co.calls = []*activation{fork}
				}
				it := x.iters[i]
				var failure any
				seq := func(yield func(val.Value) bool) {
					defer func() {
						if r := recover(); r != nil {
							if _, ok := r.(abandon); ok {
								return
							}
							failure = r
						}
					}()
					co.yieldFn = yield
					in.eval(it, fork)
				}
				next, stop := iter.Pull(iter.Seq[val.Value](seq))
				g := &gen{stop: stop, co: co}
				g.next = func() (val.Value, bool) {
					in.cur = co
					v, ok := next()
					in.cur = k
					if failure != nil {
						f := failure
						failure = nil
						panic(f)
					}
					return v, ok
				}
				gens[i] = g
			}
			v, ok := gens[i].next()
			if !ok {
				return result, cNone
			}
			in.writeVar(x.vars[i], act, v)
		}
		in.stats.LoopIters++
		v, ct := in.eval(x.body, act)
		if ct == cReturn {
			return v, ct
		}
		result = v
	}
}

func (in *Interp) builtin(x rBuiltin, act *activation) val.Value {
	var a val.Value
	if x.arg != nil {
		a, _ = in.eval(x.arg, act)
	}
	switch x.name {
	case "write":
		if a.K == val.Nil {
			panic(ambiguous{"write(nil)"})
		}
		in.out.WriteString(val.Render(a))
		in.stats.Writes++
		return val.NilV
	case "toa":
		if a.K == val.Nil {
			panic(ambiguous{"toa(nil)"})
		}
		s := val.Render(a)
		in.account(len(s)/8 + 1)
		return val.StrV(s)
	case "aton":
		if a.K != val.Str {
			if a.K == val.Nil {
				panic(ambiguous{"aton(nil)"})
			}
			in.fail(val.EType, "aton", a)
		}
		if i, err := strconv.Atoi(a.S); err == nil {
			return val.IntV(int64(i))
		}
		if f, err := strconv.ParseFloat(a.S, 64); err == nil {
			return val.FloatV(f)
		}
		in.fail(val.EConversion, "aton", a)
	case "read":
		if in.stdinPos >= len(in.stdin) {
			in.fail(val.ERead, "read")
		}
		in.stdinPos++
		return val.StrV(in.stdin[in.stdinPos-1])
	case "exit":
		panic(ambiguous{"exit"})
	}
	panic("rs.builtin: " + x.name)
}
