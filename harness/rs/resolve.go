// Package rs is the reference semantics of calc: a direct, unoptimised
// evaluator of harness syntax trees written from the README (DESIGN.md 4.2).
// It shares no code or data structure with calc.
package rs

import (
	"fmt"

	"verif/ast"
)

// Resolved tree. Scoping is static and in source order: an assignment or a
// for binding declares the name local to the function it stands in (unless it
// already is); a use is local if declared so far in the own function, else
// captured if declared so far in the immediately enclosing function, else
// global. At top level every name is global.

type rnode interface{}

type (
	rLit struct{ v any } // val.Value stored as any to keep this file free of evaluation types
	rVar struct {
		kind int // 0 global, 1 local, 2 captured
		idx  int
		name string
	}
	rUnary struct {
		op string
		x  rnode
	}
	rBinary struct {
		op   string
		l, r rnode
	}
	rIndex struct{ x, i rnode }
	rSlice struct{ x, i, j rnode }
	rArray struct{ elems []rnode }
	rCall  struct {
		fn   rVar
		args []rnode
	}
	rFunc struct {
		params  []string
		nlocals int
		names   []string // slot names
		body    rnode
		id      int
	}
	rAssign struct {
		dst   rVar
		value rnode
	}
	rIf    struct{ cond, then, els rnode }
	rWhile struct{ cond, body rnode }
	rFor   struct {
		vars  []rVar
		iters []rnode
		body  rnode
	}
	rReturn struct{ x rnode }
	rYield  struct{ x rnode }
	rBlock  struct{ stmts []rnode }
	// built-in bodies
	rBuiltin struct {
		name string
		arg  rnode
	}
)

const (
	vGlobal = iota
	vLocal
	vCaptured
)

type scope struct {
	slots map[string]int
	names []string
}

type resolver struct {
	scopes []*scope // function scopes, innermost last; empty at top level
	nfunc  int
}

func (r *resolver) declare(name string) rVar {
	if len(r.scopes) == 0 {
		return rVar{kind: vGlobal, name: name}
	}
	s := r.scopes[len(r.scopes)-1]
	if i, ok := s.slots[name]; ok {
		return rVar{kind: vLocal, idx: i, name: name}
	}
	i := len(s.names)
	s.slots[name] = i
	s.names = append(s.names, name)
	return rVar{kind: vLocal, idx: i, name: name}
}

func (r *resolver) use(name string) rVar {
	n := len(r.scopes)
	if n > 0 {
		if i, ok := r.scopes[n-1].slots[name]; ok {
			return rVar{kind: vLocal, idx: i, name: name}
		}
	}
	if n > 1 {
		if i, ok := r.scopes[n-2].slots[name]; ok {
			return rVar{kind: vCaptured, idx: i, name: name}
		}
	}
	return rVar{kind: vGlobal, name: name}
}

func (r *resolver) list(xs []ast.Node) []rnode {
	out := make([]rnode, len(xs))
	for i, x := range xs {
		out[i] = r.node(x)
	}
	return out
}

func (r *resolver) node(n ast.Node) rnode {
	switch x := n.(type) {
	case ast.IntLit:
		return rLit{litInt(x.V)}
	case ast.FloatLit:
		return rLit{litFloat(x.V)}
	case ast.BoolLit:
		return rLit{litBool(x.V)}
	case ast.StrLit:
		return rLit{litStr(x.V)}
	case ast.Name:
		return r.use(x.N)
	case ast.Unary:
		return rUnary{x.Op, r.node(x.X)}
	case ast.Binary:
		l := r.node(x.L)
		return rBinary{x.Op, l, r.node(x.R)}
	case ast.Index:
		a := r.node(x.X)
		return rIndex{a, r.node(x.I)}
	case ast.Slice:
		a := r.node(x.X)
		i := r.node(x.I)
		return rSlice{a, i, r.node(x.J)}
	case ast.ArrayLit:
		return rArray{r.list(x.Elems)}
	case ast.Call:
		args := r.list(x.Args)
		return rCall{fn: r.use(x.Fn), args: args}
	case ast.FuncLit:
		s := &scope{slots: map[string]int{}}
		for _, p := range x.Params {
			if _, dup := s.slots[p]; !dup {
				s.slots[p] = len(s.names)
			} else {
				// duplicate parameter names: the later one wins the name, both take a slot
				s.slots[p] = len(s.names)
			}
			s.names = append(s.names, p)
		}
		r.scopes = append(r.scopes, s)
		body := r.node(x.Body)
		r.scopes = r.scopes[:len(r.scopes)-1]
		r.nfunc++
		return rFunc{params: x.Params, nlocals: len(s.names), names: s.names, body: body, id: r.nfunc}
	case ast.Assign:
		v := r.node(x.Value)
		return rAssign{dst: r.declare(x.Name), value: v}
	case ast.If:
		c := r.node(x.Cond)
		t := r.node(x.Then)
		var e rnode
		if x.Else != nil {
			e = r.node(x.Else)
		}
		return rIf{c, t, e}
	case ast.While:
		c := r.node(x.Cond)
		return rWhile{c, r.node(x.Body)}
	case ast.For:
		its := r.list(x.Iters)
		vars := make([]rVar, len(x.Vars))
		for i, v := range x.Vars {
			vars[i] = r.declare(v)
		}
		return rFor{vars: vars, iters: its, body: r.node(x.Body)}
	case ast.Return:
		return rReturn{r.node(x.X)}
	case ast.Yield:
		return rYield{r.node(x.X)}
	case ast.Block:
		return rBlock{r.list(x.Stmts)}
	}
	panic(fmt.Sprintf("rs.resolve: unexpected node %T", n))
}
