package gen

import (
	"fmt"

	"verif/ast"
	"verif/core"
)

// Generator pipelines (C02). A small combinator library written in calc
// (map, filter, chain, take, nest, zip, recursive and counting generators)
// and random pipelines over it. Every yield of the library can be traced: it
// is preceded by write("Y<stage>:<value>\n") and followed, when the generator
// is resumed, by write("R<stage>\n"). Leaf sequences and stage functions are
// known constants, so the harness can compute the expected consumer sequence
// with plain list operations.

// Pipe is one stage of a pipeline.
type Pipe struct {
	Kind  string // leaf-fromto leaf-elems leaf-count leaf-rec map filter chain take nest
	A, B  *Pipe
	Lo    int // leaf-fromto
	Hi    int
	Elems []int // leaf-elems
	N     int   // leaf-count, leaf-rec, take
	K     int   // map: x*K+1 ; filter: x % K != 0
	ID    int
}

// Model computes the sequence the pipeline yields.
func (p *Pipe) Model() []int {
	switch p.Kind {
	case "leaf-fromto":
		var r []int
		for i := p.Lo; i < p.Hi; i++ {
			r = append(r, i)
		}
		return r
	case "leaf-elems":
		return append([]int{}, p.Elems...)
	case "leaf-count":
		var r []int
		for i := 0; i < p.N; i++ {
			r = append(r, i)
		}
		return r
	case "leaf-rec":
		var r []int
		for i := p.N; i > 0; i-- {
			r = append(r, i)
		}
		return r
	case "map":
		var r []int
		for _, x := range p.A.Model() {
			r = append(r, x*p.K+1)
		}
		return r
	case "filter":
		var r []int
		for _, x := range p.A.Model() {
			if x%p.K != 0 {
				r = append(r, x)
			}
		}
		return r
	case "relay", "pre":
		return p.A.Model()
	case "chain":
		return append(p.A.Model(), p.B.Model()...)
	case "take":
		a := p.A.Model()
		if len(a) > p.N {
			a = a[:p.N]
		}
		return a
	case "nest":
		var r []int
		for _, x := range p.A.Model() {
			for _, y := range p.B.Model() {
				r = append(r, x*10+y)
			}
		}
		return r
	}
	panic("Pipe.Model " + p.Kind)
}

// Depth is the number of generator stages suspended while the consumer's body runs.
func (p *Pipe) Depth() int {
	switch p.Kind {
	case "map", "filter", "take", "relay", "pre":
		return 1 + p.A.Depth()
	case "chain":
		a, b := p.A.Depth(), p.B.Depth()
		if b > a {
			a = b
		}
		return 1 + a
	case "nest":
		return 1 + p.A.Depth() + p.B.Depth()
	}
	return 1
}

func (p *Pipe) Size() int {
	n := 1
	if p.A != nil {
		n += p.A.Size()
	}
	if p.B != nil {
		n += p.B.Size()
	}
	return n
}

func (p *Pipe) String() string {
	switch p.Kind {
	case "leaf-fromto":
		return fmt.Sprintf("fromto(%d,%d)", p.Lo, p.Hi)
	case "leaf-elems":
		return fmt.Sprintf("elems(%v)", p.Elems)
	case "leaf-count":
		return fmt.Sprintf("count(%d)", p.N)
	case "leaf-rec":
		return fmt.Sprintf("rec(%d)", p.N)
	case "map":
		return fmt.Sprintf("map[*%d+1](%s)", p.K, p.A)
	case "filter":
		return fmt.Sprintf("filter[%%%d](%s)", p.K, p.A)
	case "take":
		return fmt.Sprintf("take[%d](%s)", p.N, p.A)
	case "relay":
		return fmt.Sprintf("relay(%s)", p.A)
	case "pre":
		return fmt.Sprintf("pre(%s)", p.A)
	case "chain":
		return fmt.Sprintf("chain(%s,%s)", p.A, p.B)
	}
	return fmt.Sprintf("nest(%s,%s)", p.A, p.B)
}

// RandPipe draws a pipeline.
func RandPipe(r *core.Rng, depth int, id *int) *Pipe {
	*id++
	p := &Pipe{ID: *id}
	if depth <= 0 || r.Chance(1, 4) {
		switch r.Intn(4) {
		case 0:
			p.Kind, p.Lo = "leaf-fromto", r.Range(-2, 3)
			p.Hi = p.Lo + r.Range(0, 5)
		case 1:
			p.Kind = "leaf-elems"
			for k := r.Range(0, 5); k > 0; k-- {
				p.Elems = append(p.Elems, r.Range(-9, 30))
			}
		case 2:
			p.Kind, p.N = "leaf-count", r.Range(0, 5)
		default:
			p.Kind, p.N = "leaf-rec", r.Range(0, 5)
		}
		return p
	}
	switch r.Intn(6) {
	case 5:
		p.Kind, p.A = "relay", RandPipe(r, depth-1, id)
	case 0:
		p.Kind, p.K, p.A = "map", r.Range(1, 4), RandPipe(r, depth-1, id)
	case 1:
		p.Kind, p.K, p.A = "filter", r.Range(2, 3), RandPipe(r, depth-1, id)
	case 2:
		p.Kind, p.A, p.B = "chain", RandPipe(r, depth-1, id), RandPipe(r, depth-1, id)
	case 3:
		p.Kind, p.N, p.A = "take", r.Range(0, 4), RandPipe(r, depth-1, id)
	default:
		p.Kind, p.A, p.B = "nest", RandPipe(r, depth-1, id), RandPipe(r, depth-1, id)
	}
	return p
}

func call(fn string, args ...ast.Node) ast.Node { return ast.Call{Fn: fn, Args: args} }
func name(n string) ast.Node                    { return ast.Name{N: n} }
func ilit(v int) ast.Node {
	if v < 0 {
		return ast.Unary{Op: "-", X: ast.IntLit{V: int64(-v)}}
	}
	return ast.IntLit{V: int64(v)}
}
func thunk(body ast.Node) ast.Node { return ast.FuncLit{Body: body} }

// Expr builds the generator call for the pipeline (sub-pipelines are passed
// as thunks, the way the README composes iterators).
func (p *Pipe) Expr() ast.Node {
	sid := ilit(p.ID)
	switch p.Kind {
	case "leaf-fromto":
		return call("gleaf", sid, thunk(call("fromto", ilit(p.Lo), ilit(p.Hi))))
	case "leaf-elems":
		es := make([]ast.Node, len(p.Elems))
		for i, e := range p.Elems {
			es[i] = ilit(e)
		}
		return call("gleaf", sid, thunk(call("elems", ast.ArrayLit{Elems: es})))
	case "leaf-count":
		return call("gcount", sid, ilit(p.N))
	case "leaf-rec":
		return call("grec", sid, ilit(p.N))
	case "map":
		return call("gmap", sid, ast.FuncLit{Params: []string{"e"}, Body: ast.Binary{Op: "+", L: ast.Binary{Op: "*", L: name("e"), R: ilit(p.K)}, R: ilit(1)}}, thunk(p.A.Expr()))
	case "filter":
		return call("gfilter", sid, ast.FuncLit{Params: []string{"e"}, Body: ast.Binary{Op: "!=", L: ast.Binary{Op: "%", L: name("e"), R: ilit(p.K)}, R: ilit(0)}}, thunk(p.A.Expr()))
	case "chain":
		return call("gchain", sid, thunk(p.A.Expr()), thunk(p.B.Expr()))
	case "take":
		return call("gtake", sid, ilit(p.N), thunk(p.A.Expr()))
	case "relay":
		return call("grelay", sid, thunk(p.A.Expr()))
	case "pre":
		return call("gpre", sid, thunk(p.A.Expr()))
	}
	return call("gnest", sid, thunk(p.A.Expr()), thunk(p.B.Expr()))
}

// PipeLibrary returns the combinator library as calc source statements.
// traced selects the version whose yields are bracketed by trace writes.
func PipeLibrary(traced bool) []string {
	y := func(stage, val string) string {
		if !traced {
			return "yield " + val
		}
		return fmt.Sprintf("{\n write(\"Y\" + toa(%s) + \":\" + toa(%s) + \"\\n\")\n yield %s\n write(\"R\" + toa(%s) + \"\\n\")\n}", stage, val, val, stage)
	}
	// a traced yield is a block; where it is the single-statement body the braces are its own
	return []string{
		"gleaf = (s, it) -> for e <- it() " + y("s", "e"),
		"gcount = (s, n) -> {\n i = 0\n while i < n {\n " + oneLine(y("s", "i")) + "\n i = i + 1\n }\n}",
		"grec = (s, n) -> if n > 0 {\n " + oneLine(y("s", "n")) + "\n grec(s, n - 1)\n}",
		"gmap = (s, f, it) -> for e <- it() " + yv(traced, "s", "f(e)"),
		"gfilter = (s, p, it) -> for e <- it() if p(e) " + y("s", "e"),
		"gchain = (s, a, b) -> {\n for x <- a() " + y("s", "x") + "\n for z <- b() " + y("s", "z") + "\n}",
		"gtake = (s, n, it) -> {\n c = 0\n for e <- it() {\n if c >= n return 0\n " + oneLine(y("s", "e")) + "\n c = c + 1\n }\n}",
		"gnest = (s, a, b) -> for x <- a() for z <- b() " + yv(traced, "s", "x * 10 + z"),
		// a yield evaluates to the yielded value: gone's result is the value of its yield
		// runs its source to the end once (a finished loop of its own, its contexts freed) before it yields anything
		"gpre = (s, it) -> {\n for e <- it() 0\n for e <- it() yield e\n}",
		// plain functions with loops of their own, for consumer bodies
		"gsumto = (k) -> {\n s = 0\n for q <- fromto(0, 3) s = s + q * k\n s\n}",
		"gzipto = (k) -> {\n s = 0\n for q, p <- fromto(0, 2), elems([5, 6, 7]) s = s + q + p\n for q <- fromto(0, 2) s = s - k\n s\n}",
		"gone = (e) -> yield e",
		"grelay = (s, it) -> for e <- it() {\n" + relayY(traced) + " if w != e write(\"BADYIELD:\" + toa(w) + \"\\n\")\n}",
	}
}

// yv yields a computed value exactly once evaluated.
func yv(traced bool, stage, expr string) string {
	if !traced {
		return "yield " + expr
	}
	return fmt.Sprintf("{\n w = %s\n write(\"Y\" + toa(%s) + \":\" + toa(w) + \"\\n\")\n yield w\n write(\"R\" + toa(%s) + \"\\n\")\n}", expr, stage, stage)
}

// oneLine splices a traced yield block's statements into an enclosing block
// (blocks cannot nest directly).
func oneLine(block string) string {
	if len(block) > 2 && block[0] == '{' {
		return block[2 : len(block)-2]
	}
	return block
}

func relayY(traced bool) string {
	if !traced {
		return " w = gone(e)\n"
	}
	return " write(\"Y\" + toa(s) + \":\" + toa(e) + \"\\n\")\n w = gone(e)\n write(\"R\" + toa(s) + \"\\n\")\n"
}
