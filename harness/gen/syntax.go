// Package gen holds the seeded generators.
package gen

import (
	"verif/ast"
	"verif/core"
)

var keywords = map[string]bool{"if": true, "else": true, "while": true, "for": true, "return": true, "yield": true, "true": true, "false": true}

var synNames = []string{"a", "b", "c", "x", "y", "n", "f", "g", "foo", "it", "acc", "ifx", "elsey", "truex", "forr", "whiley", "t", "write", "toa", "fromto", "elems", "read", "aton", "indices"}

// SynName draws a variable name (never a keyword; sometimes keyword-prefixed).
func SynName(r *core.Rng) string { return synNames[r.Intn(len(synNames))] }

func synLit(r *core.Rng) ast.Node {
	switch r.Intn(7) {
	case 0:
		return ast.IntLit{V: int64(r.Intn(10))}
	case 1:
		return ast.IntLit{V: int64(r.U64() >> uint(1+r.Intn(63)))}
	case 2:
		return ast.FloatLit{V: float64(r.Intn(4000)) / 8}
	case 3:
		return ast.BoolLit{V: r.Bool()}
	case 4:
		s := ""
		for k := r.Intn(6); k > 0; k-- {
			s += []string{"a", "b", " ", "\"", "{", "]", ";", "é", "x y", "0", ","}[r.Intn(11)]
		}
		return ast.StrLit{V: s}
	case 5:
		return ast.StrLit{V: "line\nbreak"}
	default:
		return ast.Name{N: SynName(r)}
	}
}

// SynExpr draws an arbitrary (not necessarily well-typed) expression tree.
func SynExpr(r *core.Rng, depth int) ast.Node {
	if depth <= 0 || r.Chance(1, 5) {
		return synLit(r)
	}
	switch r.Pick(30, 10, 8, 5, 8, 10, 6) {
	case 0:
		return ast.Binary{Op: ast.BinaryOps[r.Intn(len(ast.BinaryOps))], L: SynExpr(r, depth-1), R: SynExpr(r, depth-1)}
	case 1:
		return ast.Unary{Op: ast.UnaryOps[r.Intn(4)], X: SynExpr(r, depth-1)}
	case 2:
		return ast.Index{X: SynExpr(r, depth-1), I: SynExpr(r, depth-1)}
	case 3:
		return ast.Slice{X: SynExpr(r, depth-1), I: SynExpr(r, depth-1), J: SynExpr(r, depth-1)}
	case 4:
		n := r.Intn(4)
		es := make([]ast.Node, n)
		for i := range es {
			es[i] = SynExpr(r, depth-1)
		}
		return ast.ArrayLit{Elems: es}
	case 5:
		n := r.Intn(4)
		es := make([]ast.Node, n)
		for i := range es {
			es[i] = SynExpr(r, depth-1)
		}
		return ast.Call{Fn: SynName(r), Args: es}
	default:
		n := r.Intn(3)
		ps := make([]string, n)
		for i := range ps {
			ps[i] = SynName(r)
		}
		return ast.FuncLit{Params: ps, Body: SynBody(r, depth-1)}
	}
}

// SynStmt draws an arbitrary statement.
func SynStmt(r *core.Rng, depth int) ast.Node {
	if depth <= 0 {
		return SynExpr(r, 0)
	}
	switch r.Pick(20, 14, 10, 10, 8, 8, 6, 6) {
	case 0:
		return SynExpr(r, depth)
	case 1:
		return ast.Assign{Name: SynName(r), Value: SynExpr(r, depth-1)}
	case 2:
		return ast.If{Cond: SynExpr(r, depth-1), Then: SynBody(r, depth-1)}
	case 3:
		return ast.If{Cond: SynExpr(r, depth-1), Then: SynBody(r, depth-1), Else: SynBody(r, depth-1)}
	case 4:
		return ast.While{Cond: SynExpr(r, depth-1), Body: SynBody(r, depth-1)}
	case 5:
		n := r.Range(1, 3)
		vs := make([]string, n)
		its := make([]ast.Node, n)
		for i := range vs {
			vs[i] = SynName(r)
			its[i] = SynExpr(r, depth-1)
		}
		return ast.For{Vars: vs, Iters: its, Body: SynBody(r, depth-1)}
	case 6:
		return ast.Return{X: SynExpr(r, depth-1)}
	default:
		return ast.Yield{X: SynExpr(r, depth-1)}
	}
}

// SynBody draws what can stand in a block position.
func SynBody(r *core.Rng, depth int) ast.Node {
	if r.Chance(1, 3) && depth > 0 {
		n := r.Range(2, 4)
		ss := make([]ast.Node, n)
		for i := range ss {
			ss[i] = SynStmt(r, depth-1)
		}
		return ast.Block{Stmts: ss}
	}
	return SynStmt(r, depth)
}

// RandLayout draws a layout variant.
func RandLayout(r *core.Rng) *ast.Layout {
	l := &ast.Layout{Rnd: r.Intn}
	if r.Chance(1, 2) {
		l.ExtraParens = r.Range(5, 30)
	}
	switch r.Intn(3) {
	case 0:
		l.Compact = true
	case 1:
		l.RandomBlanks = true
	}
	if r.Chance(1, 2) {
		l.BlankLines = r.Range(10, 40)
	}
	if r.Chance(1, 2) {
		l.ArrayNewlines = r.Range(10, 40)
	}
	if r.Chance(1, 2) {
		l.Comments = r.Range(10, 50)
	}
	if r.Chance(1, 2) {
		l.BraceSingles = r.Range(10, 60)
	}
	return l
}
