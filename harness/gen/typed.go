package gen

import (
	"fmt"

	"verif/ast"
	"verif/core"
)

// Typed program generator (DESIGN.md 4.4, Appendix B). It tracks a static
// type for every expression so that programs are well-typed and terminating by
// construction and stay inside the agreed region; the reference semantics
// says what actually happens (including accidental runtime errors).

type TK int

const (
	TInt TK = iota
	TFloat
	TBool
	TStr
	TArr // array of Elem
	TFun // function Params -> Ret
	TGen // generator function Params -> yields Ret
	TVoid
)

type Ty struct {
	K      TK
	Elem   *Ty
	Params []Ty
	Ret    *Ty
}

var (
	Int   = Ty{K: TInt}
	Float = Ty{K: TFloat}
	Bool  = Ty{K: TBool}
	Str   = Ty{K: TStr}
	Void  = Ty{K: TVoid}
)

func ArrOf(e Ty) Ty               { return Ty{K: TArr, Elem: &e} }
func FunOf(ret Ty, ps ...Ty) Ty   { return Ty{K: TFun, Params: ps, Ret: &ret} }
func GenOf(yield Ty, ps ...Ty) Ty { return Ty{K: TGen, Params: ps, Ret: &yield} }

func (t Ty) Eq(u Ty) bool {
	if t.K != u.K {
		return false
	}
	switch t.K {
	case TArr:
		return t.Elem.Eq(*u.Elem)
	case TFun, TGen:
		if len(t.Params) != len(u.Params) || !t.Ret.Eq(*u.Ret) {
			return false
		}
		for i := range t.Params {
			if !t.Params[i].Eq(u.Params[i]) {
				return false
			}
		}
	}
	return true
}

func (t Ty) String() string {
	switch t.K {
	case TInt:
		return "int"
	case TFloat:
		return "float"
	case TBool:
		return "bool"
	case TStr:
		return "str"
	case TVoid:
		return "void"
	case TArr:
		return "[" + t.Elem.String() + "]"
	}
	s := "("
	for i, p := range t.Params {
		if i > 0 {
			s += ","
		}
		s += p.String()
	}
	if t.K == TGen {
		return s + ")~>" + t.Ret.String()
	}
	return s + ")->" + t.Ret.String()
}

type Var struct {
	Name      string
	T         Ty
	Protected bool // loop counter / recursion argument: never reassigned by random statements
}

// Opts steers a generator.
type Opts struct {
	Writes     bool // allow write() calls
	Generators bool // allow for/yield
	Closures   bool
	Floats     bool
	Recursion  bool
	MaxDepth   int  // expression depth
	MaxStmts   int  // statements per body
	LoopBound  int  // max iterations of generated loops
	Purity     bool // generate only side-effect free functions
	NoErrors   bool // avoid the operations that may fail at run time (/, %, indexing by computed values)
	Faults     int  // number of deliberately faulty expressions to plant (at most)
}

func DefaultOpts() Opts {
	return Opts{Writes: true, Generators: true, Closures: true, Floats: true, Recursion: true, MaxDepth: 4, MaxStmts: 5, LoopBound: 6}
}

type fnScope struct {
	locals   []Var // declared so far, parameters first
	captured []Var // the enclosing function's locals when this literal was started
	inGen    bool  // body may yield
	yieldT   Ty
	retT     Ty
	// names whose original the iterator expressions of an enclosing loop read: loop bodies must not assign them
	frozen map[string]bool
	hasFor bool
}

type G struct {
	R       *core.Rng
	O       Opts
	Globals []Var
	scopes  []*fnScope
	nameSeq int
	Classes map[string]bool // compile-context classes emitted (evidence)
	// SayCond: the session defines tsay = (b) -> { write("?") ; b }; loop conditions may go through it,
	// so that how often a condition is evaluated shows in the output
	SayCond bool
}

func New(r *core.Rng, o Opts) *G {
	return &G{R: r, O: o, Classes: map[string]bool{}}
}

var namePool = []string{"a", "b", "c", "d", "e", "k", "m", "n", "p", "q", "s", "t", "u", "v", "w", "x", "y", "z", "aa", "bb", "cnt", "acc", "tmp", "lst", "idx", "res", "val", "itm"}

var reserved = map[string]bool{"if": true, "else": true, "while": true, "for": true, "return": true, "yield": true, "true": true, "false": true,
	"read": true, "write": true, "aton": true, "toa": true, "exit": true, "fromto": true, "elems": true, "indices": true}

func (g *G) cls(c string) { g.Classes[c] = true }

func (g *G) cur() *fnScope {
	if len(g.scopes) == 0 {
		return nil
	}
	return g.scopes[len(g.scopes)-1]
}

// visible reports whether a name is visible (local, captured or global).
func (g *G) lookup(name string) (Var, string, bool) {
	if s := g.cur(); s != nil {
		for i := len(s.locals) - 1; i >= 0; i-- {
			if s.locals[i].Name == name {
				return s.locals[i], "local", true
			}
		}
		for i := len(s.captured) - 1; i >= 0; i-- {
			if s.captured[i].Name == name {
				return s.captured[i], "captured", true
			}
		}
	}
	for i := len(g.Globals) - 1; i >= 0; i-- {
		if g.Globals[i].Name == name {
			return g.Globals[i], "global", true
		}
	}
	return Var{}, "", false
}

// FreshName returns a name not visible anywhere (no shadowing).
func (g *G) FreshName() string {
	for tries := 0; tries < 50; tries++ {
		n := namePool[g.R.Intn(len(namePool))]
		if _, _, ok := g.lookup(n); !ok && !reserved[n] {
			return n
		}
	}
	for {
		g.nameSeq++
		n := ""
		for k := g.nameSeq; k > 0; k /= 26 {
			n += string(rune('a' + k%26))
		}
		n = "v" + n
		if _, _, ok := g.lookup(n); !ok && !reserved[n] {
			return n
		}
	}
}

// varsOf lists visible variables of a type with their storage class.
func (g *G) varsOf(t Ty) (vs []Var, classes []string) {
	seen := map[string]bool{}
	add := func(v Var, c string) {
		if seen[v.Name] {
			return
		}
		seen[v.Name] = true
		if v.T.Eq(t) {
			vs = append(vs, v)
			classes = append(classes, c)
		}
	}
	if s := g.cur(); s != nil {
		for i := len(s.locals) - 1; i >= 0; i-- {
			add(s.locals[i], "local")
		}
		for i := len(s.captured) - 1; i >= 0; i-- {
			add(s.captured[i], "captured")
		}
	}
	for i := len(g.Globals) - 1; i >= 0; i-- {
		add(g.Globals[i], "global")
	}
	return
}

func (g *G) declare(name string, t Ty, protected bool) {
	if s := g.cur(); s != nil {
		for i := range s.locals {
			if s.locals[i].Name == name {
				s.locals[i].T = t
				return
			}
		}
		s.locals = append(s.locals, Var{name, t, protected})
		return
	}
	for i := range g.Globals {
		if g.Globals[i].Name == name {
			g.Globals[i].T = t
			return
		}
	}
	g.Globals = append(g.Globals, Var{name, t, protected})
}

// ---- literals ---------------------------------------------------------------------

func (g *G) intLit() ast.Node {
	r := g.R
	var v int64
	switch r.Intn(8) {
	case 0:
		v = 0
	case 1:
		v = 1
	case 2:
		v = int64(r.Intn(1 << 20))
	case 3:
		v = int64(r.U64() >> uint(2+r.Intn(40)))
	default:
		v = int64(r.Intn(12))
	}
	if r.Chance(1, 6) && v != 0 {
		return ast.Unary{Op: "-", X: ast.IntLit{V: v}}
	}
	return ast.IntLit{V: v}
}

func (g *G) strLit() ast.Node {
	r := g.R
	n := r.Intn(6)
	s := ""
	for i := 0; i < n; i++ {
		s += []string{"a", "b", "c", "x", "y", " ", "0", "1", "-", "q", "\"", ",", "{"}[r.Intn(13)]
	}
	return ast.StrLit{V: s}
}

func (g *G) lit(t Ty, depth int) ast.Node {
	switch t.K {
	case TInt:
		return g.intLit()
	case TFloat:
		return ast.FloatLit{V: float64(g.R.Intn(800)) / 8}
	case TBool:
		return ast.BoolLit{V: g.R.Bool()}
	case TStr:
		return g.strLit()
	case TArr:
		n := g.R.Intn(4)
		es := make([]ast.Node, n)
		for i := range es {
			if depth > 0 && g.R.Chance(1, 3) {
				es[i] = g.Expr(*t.Elem, depth-1)
			} else {
				es[i] = g.lit(*t.Elem, depth-1)
			}
		}
		return ast.ArrayLit{Elems: es}
	case TFun, TGen:
		return g.FuncLit(t, depth)
	}
	panic("gen.lit: " + t.String())
}

// ---- expressions ------------------------------------------------------------------

func (g *G) variable(t Ty) (ast.Node, bool) {
	vs, cs := g.varsOf(t)
	if len(vs) == 0 {
		return nil, false
	}
	i := g.R.Intn(len(vs))
	g.cls("operand:" + cs[i])
	return ast.Name{N: vs[i].Name}, true
}

// callable returns a visible function variable returning t.
func (g *G) callOf(t Ty, depth int) (ast.Node, bool) {
	var cands []Var
	seen := map[string]bool{}
	consider := func(v Var) {
		if seen[v.Name] {
			return
		}
		seen[v.Name] = true
		if v.T.K == TFun && v.T.Ret.Eq(t) && !v.Protected {
			cands = append(cands, v)
		}
	}
	if s := g.cur(); s != nil {
		for i := len(s.locals) - 1; i >= 0; i-- {
			consider(s.locals[i])
		}
		for i := len(s.captured) - 1; i >= 0; i-- {
			consider(s.captured[i])
		}
	}
	for i := len(g.Globals) - 1; i >= 0; i-- {
		consider(g.Globals[i])
	}
	if len(cands) == 0 {
		return nil, false
	}
	f := cands[g.R.Intn(len(cands))]
	args := make([]ast.Node, len(f.T.Params))
	for i, p := range f.T.Params {
		args[i] = g.Expr(p, depth-1)
	}
	g.cls("operand:call")
	return ast.Call{Fn: f.Name, Args: args}, true
}

// smallInt is an int expression whose value is in 0..bound-1 given a
// non-negative... no such guarantee: used for shift counts only.
func (g *G) shiftCount() ast.Node { return ast.IntLit{V: int64(g.R.Intn(9))} }

func (g *G) Expr(t Ty, depth int) ast.Node {
	r := g.R
	if depth <= 0 {
		if r.Chance(3, 5) {
			if v, ok := g.variable(t); ok {
				return v
			}
		}
		g.cls("operand:const")
		return g.lit(t, 0)
	}
	switch r.Pick(3, 4, 3, 12) {
	case 0:
		g.cls("operand:const")
		return g.lit(t, depth)
	case 1:
		if v, ok := g.variable(t); ok {
			return v
		}
	case 2:
		if t.K != TFun && t.K != TGen {
			if c, ok := g.callOf(t, depth); ok {
				return c
			}
		}
	}
	if t.K == TInt && g.O.Faults > 0 && r.Chance(1, 12) {
		g.O.Faults--
		return g.fault(depth)
	}
	switch t.K {
	case TInt:
		switch r.Pick(30, 6, 6, 5, 4, 4, 6, 3) {
		case 0:
			op := []string{"+", "-", "*", "+", "-"}[r.Intn(5)]
			return ast.Binary{Op: op, L: g.Expr(Int, depth-1), R: g.Expr(Int, depth-1)}
		case 1:
			if g.O.NoErrors {
				return ast.Binary{Op: "/", L: g.Expr(Int, depth-1), R: ast.IntLit{V: int64(r.Range(1, 9))}}
			}
			return ast.Binary{Op: []string{"/", "%"}[r.Intn(2)], L: g.Expr(Int, depth-1), R: g.Expr(Int, depth-1)}
		case 2:
			return ast.Binary{Op: []string{"&", "|", "&&", "||"}[r.Intn(4)], L: g.Expr(Int, depth-1), R: g.Expr(Int, depth-1)}
		case 3:
			return ast.Binary{Op: "<<", L: g.Expr(Int, depth-1), R: g.shiftCount()}
		case 4:
			return ast.Binary{Op: ">>", L: ast.Binary{Op: "&", L: g.Expr(Int, depth-1), R: ast.IntLit{V: 0xffffff}}, R: g.shiftCount()}
		case 5:
			return ast.Unary{Op: []string{"-", "~"}[r.Intn(2)], X: g.Expr(Int, depth-1)}
		case 6:
			if r.Bool() {
				return ast.Unary{Op: "#", X: g.Expr(Str, depth-1)}
			}
			return ast.Unary{Op: "#", X: g.Expr(ArrOf(Int), depth-1)}
		default:
			return g.indexInto(Int, depth)
		}
	case TFloat:
		switch r.Intn(4) {
		case 0:
			return ast.Binary{Op: []string{"+", "-", "*", "/"}[r.Intn(4)], L: g.Expr(Float, depth-1), R: g.Expr(Int, depth-1)}
		case 1:
			return ast.Binary{Op: []string{"+", "-", "*"}[r.Intn(3)], L: g.Expr(Int, depth-1), R: g.Expr(Float, depth-1)}
		case 2:
			return ast.Unary{Op: "-", X: g.Expr(Float, depth-1)}
		default:
			return ast.Binary{Op: []string{"+", "-", "*", "/"}[r.Intn(4)], L: g.Expr(Float, depth-1), R: g.Expr(Float, depth-1)}
		}
	case TBool:
		switch r.Pick(10, 6, 6, 3, 3) {
		case 0:
			nt := Int
			if g.O.Floats && r.Chance(1, 4) {
				nt = Float
			}
			return ast.Binary{Op: []string{"<", ">", "<=", ">=", "==", "!="}[r.Intn(6)], L: g.Expr(Int, depth-1), R: g.Expr(nt, depth-1)}
		case 1:
			return ast.Binary{Op: []string{"&", "|", "&&", "||"}[r.Intn(4)], L: g.Expr(Bool, depth-1), R: g.Expr(Bool, depth-1)}
		case 2:
			et := []Ty{Int, Str, Bool, ArrOf(Int)}[r.Intn(4)]
			return ast.Binary{Op: []string{"==", "!="}[r.Intn(2)], L: g.Expr(et, depth-1), R: g.Expr(et, depth-1)}
		case 3:
			return ast.Unary{Op: "!", X: g.Expr(Bool, depth-1)}
		default:
			// equality between different types is defined (false)
			return ast.Binary{Op: "==", L: g.Expr(Int, depth-1), R: g.Expr(Str, depth-1)}
		}
	case TStr:
		switch r.Pick(10, 5, 3, 2) {
		case 0:
			return ast.Binary{Op: "+", L: g.Expr(Str, depth-1), R: g.Expr(Str, depth-1)}
		case 1:
			at := []Ty{Int, Bool, Str, ArrOf(Int), Float}[r.Intn(5)]
			if at.K == TFloat && !g.O.Floats {
				at = Int
			}
			return ast.Call{Fn: "toa", Args: []ast.Node{g.Expr(at, depth-1)}}
		case 2:
			return g.sliceOf(Str, depth)
		default:
			return g.indexInto(Str, depth)
		}
	case TArr:
		switch r.Pick(8, 6, 3, 2) {
		case 0:
			return ast.Binary{Op: "+", L: g.Expr(t, depth-1), R: g.Expr(t, depth-1)}
		case 1:
			return g.lit(t, depth)
		case 2:
			return g.sliceOf(t, depth)
		default:
			if t.Elem.K != TArr {
				return g.indexInto(t, depth)
			}
			return g.lit(t, depth)
		}
	case TFun, TGen:
		return g.FuncLit(t, depth)
	}
	return g.lit(t, 0)
}

// indexInto builds container[i] yielding type t.
func (g *G) indexInto(t Ty, depth int) ast.Node {
	r := g.R
	if t.K == TStr {
		// s[i] on a literal string with an index inside it
		s := "abcdefgh"[:r.Range(1, 8)]
		return ast.Index{X: ast.StrLit{V: s}, I: ast.IntLit{V: int64(r.Intn(len(s)))}}
	}
	// literal array of t with a literal or computed (guarded) index
	n := r.Range(1, 4)
	es := make([]ast.Node, n)
	for i := range es {
		es[i] = g.Expr(t, depth-1)
	}
	arr := ast.ArrayLit{Elems: es}
	var idx ast.Node = ast.IntLit{V: int64(r.Intn(n))}
	if !g.O.NoErrors && r.Chance(1, 3) {
		// (e & 1023) % n is always a valid index
		idx = ast.Binary{Op: "%", L: ast.Binary{Op: "&", L: g.Expr(Int, depth-1), R: ast.IntLit{V: 1023}}, R: ast.IntLit{V: int64(n)}}
	} else if r.Chance(1, 3) {
		// a call directly in the index position
		if c, ok := g.callOf(Int, 1); ok {
			idx = ast.Binary{Op: "%", L: ast.Binary{Op: "&", L: c, R: ast.IntLit{V: 1023}}, R: ast.IntLit{V: int64(n)}}
			g.cls("operand:call-in-index")
		}
	}
	if vs, _ := g.varsOf(ArrOf(t)); len(vs) > 0 && !g.O.NoErrors && r.Chance(1, 3) {
		// indexing a variable array: may be an index error, RS decides
		return ast.Index{X: ast.Name{N: vs[r.Intn(len(vs))].Name}, I: ast.IntLit{V: int64(r.Intn(3))}}
	}
	return ast.Index{X: arr, I: idx}
}

func (g *G) sliceOf(t Ty, depth int) ast.Node {
	r := g.R
	if t.K == TStr {
		s := "abcdefgh"[:r.Range(0, 8)]
		i := r.Intn(len(s) + 1)
		j := i + r.Intn(len(s)-i+1)
		var x ast.Node = ast.StrLit{V: s}
		if r.Chance(1, 3) {
			x = ast.Binary{Op: "+", L: x, R: g.Expr(Str, depth-1)}
		}
		return ast.Slice{X: x, I: ast.IntLit{V: int64(i)}, J: ast.IntLit{V: int64(j)}}
	}
	n := r.Range(0, 4)
	es := make([]ast.Node, n)
	for i := range es {
		es[i] = g.Expr(*t.Elem, depth-1)
	}
	i := r.Intn(n + 1)
	j := i + r.Intn(n-i+1)
	var x ast.Node = ast.ArrayLit{Elems: es}
	if r.Chance(1, 3) {
		x = ast.Binary{Op: "+", L: x, R: g.Expr(t, depth-1)}
	}
	return ast.Slice{X: x, I: ast.IntLit{V: int64(i)}, J: ast.IntLit{V: int64(j)}}
}

// ---- functions ----------------------------------------------------------------------

// FuncLit builds a function literal of type t (TFun or TGen).
func (g *G) FuncLit(t Ty, depth int) ast.Node {
	s := &fnScope{frozen: map[string]bool{}}
	if outer := g.cur(); outer != nil {
		s.captured = append([]Var{}, outer.locals...)
	}
	params := make([]string, len(t.Params))
	used := map[string]bool{}
	for i, p := range t.Params {
		n := g.FreshName()
		for used[n] {
			g.nameSeq++
			n = fmt.Sprintf("p%s", string(rune('a'+g.nameSeq%26)))
			if reserved[n] {
				n = "pz"
			}
		}
		used[n] = true
		params[i] = n
		s.locals = append(s.locals, Var{Name: n, T: p})
	}
	s.retT = *t.Ret
	if t.K == TGen {
		s.inGen, s.yieldT, s.retT = true, *t.Ret, Void
	}
	g.scopes = append(g.scopes, s)
	var body ast.Node
	if t.K == TGen {
		body = g.genBody(depth)
	} else {
		body = g.Body(s.retT, depth, true)
	}
	g.scopes = g.scopes[:len(g.scopes)-1]
	return ast.FuncLit{Params: params, Body: body}
}

// genBody: a generator body yields values of the scope's yield type a bounded
// number of times.
func (g *G) genBody(depth int) ast.Node {
	r := g.R
	s := g.cur()
	var stmts []ast.Node
	switch r.Intn(4) {
	case 0: // straight-line yields
		for k := r.Range(1, 4); k > 0; k-- {
			stmts = append(stmts, ast.Yield{X: g.Expr(s.yieldT, depth-1)})
			if r.Chance(1, 3) {
				stmts = appendStmt(stmts, g.scopedStmt(depth-1))
			}
		}
	case 1: // counted while
		stmts = append(stmts, g.countedLoop(depth, func() []ast.Node {
			ys := []ast.Node{ast.Yield{X: g.Expr(s.yieldT, depth-1)}}
			if r.Chance(1, 3) {
				ys = appendStmt(ys, g.scopedStmt(depth-1))
			}
			return ys
		})...)
	case 2: // conditional yields
		stmts = append(stmts, ast.If{Cond: g.Expr(Bool, depth-1), Then: ast.Yield{X: g.Expr(s.yieldT, depth-1)}})
		stmts = append(stmts, ast.Yield{X: g.Expr(s.yieldT, depth-1)})
	default: // re-yield from another generator (map / filter shape)
		if f, ok := g.forOver(s.yieldT, depth, func(v string) ast.Node {
			var y ast.Node = ast.Yield{X: ast.Name{N: v}}
			if r.Chance(1, 2) {
				y = ast.Yield{X: g.Expr(s.yieldT, depth-1)}
			}
			if r.Chance(1, 3) {
				return ast.If{Cond: g.Expr(Bool, depth-1), Then: y}
			}
			return y
		}); ok {
			stmts = append(stmts, f)
		} else {
			stmts = append(stmts, ast.Yield{X: g.Expr(s.yieldT, depth-1)})
		}
	}
	if len(stmts) == 1 {
		return stmts[0]
	}
	return ast.Block{Stmts: stmts}
}

// countedLoop: i = 0 ; while i < K { body ; i = i + 1 } with a protected counter.
func (g *G) countedLoop(depth int, body func() []ast.Node) []ast.Node {
	r := g.R
	i := g.FreshName()
	k := r.Range(0, g.O.LoopBound)
	g.declare(i, Int, true)
	init := ast.Assign{Name: i, Value: ast.IntLit{V: 0}}
	m := g.mark()
	bs := body()
	g.restore(m)
	var inc ast.Node
	switch r.Intn(3) {
	case 0:
		inc = ast.Assign{Name: i, Value: ast.Binary{Op: "+", L: ast.Name{N: i}, R: ast.IntLit{V: 1}}}
		g.cls("assign:x=x+1")
	case 1:
		inc = ast.Assign{Name: i, Value: ast.Binary{Op: "+", L: ast.IntLit{V: 1}, R: ast.Name{N: i}}}
		g.cls("assign:x=1+x")
	default:
		inc = ast.Assign{Name: i, Value: ast.Binary{Op: "+", L: ast.Name{N: i}, R: ast.IntLit{V: int64(r.Range(1, 3))}}}
	}
	bs = append(bs, inc)
	var cond ast.Node = ast.Binary{Op: "<", L: ast.Name{N: i}, R: ast.IntLit{V: int64(k)}}
	if r.Chance(1, 4) {
		cond = ast.Unary{Op: "!", X: ast.Binary{Op: ">=", L: ast.Name{N: i}, R: ast.IntLit{V: int64(k)}}}
		g.cls("cond:negated")
	}
	if g.SayCond && g.O.Writes && !g.O.Purity && r.Chance(1, 3) {
		cond = ast.Call{Fn: "tsay", Args: []ast.Node{cond}}
		g.cls("cond:observable")
	}
	var b ast.Node = ast.Block{Stmts: bs}
	if len(bs) == 1 {
		b = bs[0]
	}
	return []ast.Node{init, ast.While{Cond: cond, Body: b}}
}

// generatorExpr builds an iterator expression yielding t: a call of a visible
// generator function or of a built-in one.
func (g *G) generatorExpr(t Ty, depth int) (ast.Node, bool) {
	r := g.R
	var cands []Var
	seen := map[string]bool{}
	consider := func(v Var) {
		if !seen[v.Name] && v.T.K == TGen && v.T.Ret.Eq(t) {
			cands = append(cands, v)
		}
		seen[v.Name] = true
	}
	if s := g.cur(); s != nil {
		for i := len(s.locals) - 1; i >= 0; i-- {
			consider(s.locals[i])
		}
		for i := len(s.captured) - 1; i >= 0; i-- {
			consider(s.captured[i])
		}
	}
	for i := len(g.Globals) - 1; i >= 0; i-- {
		consider(g.Globals[i])
	}
	if len(cands) > 0 && r.Chance(2, 3) {
		f := cands[r.Intn(len(cands))]
		args := make([]ast.Node, len(f.T.Params))
		for i, p := range f.T.Params {
			args[i] = g.iterArg(p, depth-1)
		}
		return ast.Call{Fn: f.Name, Args: args}, true
	}
	switch t.K {
	case TInt:
		switch r.Intn(3) {
		case 0:
			lo := r.Range(-2, 3)
			return ast.Call{Fn: "fromto", Args: []ast.Node{g.intConst(lo), g.intConst(lo + r.Range(0, g.O.LoopBound))}}, true
		case 1:
			return ast.Call{Fn: "elems", Args: []ast.Node{g.iterArg(ArrOf(Int), depth-1)}}, true
		default:
			if r.Bool() {
				return ast.Call{Fn: "indices", Args: []ast.Node{g.iterArg(ArrOf(Int), depth-1)}}, true
			}
			return ast.Call{Fn: "indices", Args: []ast.Node{g.iterArg(Str, depth-1)}}, true
		}
	case TStr:
		if r.Bool() {
			return ast.Call{Fn: "elems", Args: []ast.Node{g.iterArg(Str, depth-1)}}, true
		}
		return ast.Call{Fn: "elems", Args: []ast.Node{g.iterArg(ArrOf(Str), depth-1)}}, true
	case TBool, TFloat:
		return ast.Call{Fn: "elems", Args: []ast.Node{g.iterArg(ArrOf(t), depth-1)}}, true
	case TArr:
		return ast.Call{Fn: "elems", Args: []ast.Node{g.iterArg(ArrOf(t), depth-1)}}, true
	}
	return nil, false
}

func (g *G) intConst(v int) ast.Node {
	if v < 0 {
		return ast.Unary{Op: "-", X: ast.IntLit{V: int64(-v)}}
	}
	return ast.IntLit{V: int64(v)}
}

// iterArg: argument of an iterator expression. The names it reads are
// frozen: the loop body must not assign them (the iterator runs on a copy of
// the frame).
func (g *G) iterArg(t Ty, depth int) ast.Node {
	e := g.Expr(t, depth)
	if s := g.cur(); s != nil {
		ast.Walk(e, func(n ast.Node) bool {
			if nm, ok := n.(ast.Name); ok {
				s.frozen[nm.N] = true
			}
			if c, ok := n.(ast.Call); ok {
				s.frozen[c.Fn] = true
			}
			return true
		})
	}
	return e
}

// forOver builds `for v <- iter body(v)` with element type t.
func (g *G) forOver(t Ty, depth int, body func(v string) ast.Node) (ast.Node, bool) {
	if !g.O.Generators {
		return nil, false
	}
	r := g.R
	n := 1
	if r.Chance(1, 4) {
		n = 2
	}
	var vars []string
	var iters []ast.Node
	s := g.cur()
	var savedFrozen map[string]bool
	if s != nil {
		savedFrozen = map[string]bool{}
		for k, v := range s.frozen {
			savedFrozen[k] = v
		}
	}
	for i := 0; i < n; i++ {
		et := t
		if i > 0 {
			et = []Ty{Int, Str}[r.Intn(2)]
		}
		it, ok := g.generatorExpr(et, depth)
		if !ok {
			return nil, false
		}
		iters = append(iters, it)
	}
	// loop variables are visible inside the loop only: after a loop that ran zero times a fresh loop variable
	// is unbound (or keeps whatever an earlier top-level block left under that name), whatever its type here
	m := g.mark()
	for i := 0; i < n; i++ {
		v := g.FreshName()
		for _, u := range vars {
			if u == v {
				v = v + "x"
			}
		}
		if i == 0 && g.R.Chance(1, 3) {
			// reuse an existing variable of the element type as loop variable (not one the iterators read)
			if ex, ok := g.assignTarget(t); ok {
				v = ex
				g.cls("for:existing-variable")
			}
		}
		vars = append(vars, v)
		if i == 0 {
			g.declare(v, t, true)
		} else {
			// extra loop variables are declared with an opaque type: never used by typed expressions
			g.declare(v, Ty{K: TVoid}, true)
		}
	}
	if s != nil {
		s.hasFor = true
	}
	b := body(vars[0])
	g.restore(m)
	if s != nil {
		s.frozen = savedFrozen
	}
	g.cls(fmt.Sprintf("for:%d-iter", n))
	return ast.For{Vars: vars, Iters: iters, Body: b}, true
}

// ---- statements -------------------------------------------------------------------

// assignable: local/global variables the current scope may assign without
// leaving the agreed region.
func (g *G) assignTarget(t Ty) (string, bool) {
	var cands []string
	s := g.cur()
	if s != nil {
		for _, v := range s.locals {
			if v.T.Eq(t) && !v.Protected && !s.frozen[v.Name] {
				// parameters are not reassigned in functions that contain a for (DESIGN 4.3 rule 4)
				cands = append(cands, v.Name)
			}
		}
	} else {
		for _, v := range g.Globals {
			if v.T.Eq(t) && !v.Protected {
				cands = append(cands, v.Name)
			}
		}
	}
	if len(cands) == 0 {
		return "", false
	}
	return cands[g.R.Intn(len(cands))], true
}

func (g *G) valueType() Ty {
	r := g.R
	switch r.Pick(10, 3, 4, 4, 4, 2) {
	case 0:
		return Int
	case 1:
		if g.O.Floats {
			return Float
		}
		return Int
	case 2:
		return Bool
	case 3:
		return Str
	case 4:
		return ArrOf(Int)
	default:
		return ArrOf(ArrOf(Int))
	}
}

// Stmt builds a statement whose value is discarded.
func (g *G) Stmt(depth int) ast.Node {
	r := g.R
	if depth <= 0 {
		return g.assignStmt(0)
	}
	s := g.cur()
	if s != nil && r.Chance(1, 14) {
		// early return, possibly from inside (nested) loops
		rt := s.retT
		if rt.K == TVoid {
			rt = g.valueType()
		}
		g.cls("stmt:early-return")
		ret := ast.Return{X: g.Expr(rt, depth-1)}
		if r.Chance(1, 5) {
			return ret
		}
		return ast.If{Cond: g.Expr(Bool, depth-1), Then: ret}
	}
	if g.O.Faults > 0 && r.Chance(1, 10) {
		// a condition that is not a boolean, around bodies of every weight (a literal compiles to no code at all)
		g.O.Faults--
		g.cls("fault:condition")
		var cond ast.Node
		switch r.Intn(4) {
		case 0:
			cond = ast.IntLit{V: int64(r.Intn(3))}
		case 1:
			cond = g.Expr(Int, depth-1)
		case 2:
			cond = ast.StrLit{V: "true"}
		default:
			cond = ast.ArrayLit{Elems: []ast.Node{ast.BoolLit{V: true}}}
		}
		body := func() ast.Node {
			switch r.Intn(4) {
			case 0:
				return ast.IntLit{V: int64(r.Intn(9))}
			case 1:
				if vs, _ := g.varsOf(Int); len(vs) > 0 {
					return ast.Name{N: vs[r.Intn(len(vs))].Name}
				}
				return ast.StrLit{V: "k"}
			case 2:
				return g.Expr(Int, depth-1)
			}
			return g.inner(depth - 1)
		}
		switch r.Intn(4) {
		case 0, 1:
			return ast.If{Cond: cond, Then: body()}
		case 2:
			return ast.If{Cond: cond, Then: body(), Else: body()}
		}
		return ast.While{Cond: cond, Body: body()}
	}
	if s != nil && g.O.Generators && depth > 0 && r.Chance(1, 16) {
		if sl, ok := g.searchLoop(depth); ok {
			return sl
		}
	}
	switch r.Pick(12, 5, 5, 5, 4, 4, 3) {
	case 0:
		return g.assignStmt(depth)
	case 1:
		g.cls("stmt:if")
		return ast.If{Cond: g.Expr(Bool, depth-1), Then: g.inner(depth - 1)}
	case 2:
		g.cls("stmt:ifelse")
		return ast.If{Cond: g.Expr(Bool, depth-1), Then: g.inner(depth - 1), Else: g.inner(depth - 1)}
	case 3:
		g.cls("stmt:while")
		l := g.countedLoop(depth, func() []ast.Node {
			var bs []ast.Node
			for k := r.Range(0, 2); k > 0; k-- {
				bs = appendStmt(bs, g.scopedStmt(depth-1))
			}
			return bs
		})
		return g.seq(l)
	case 4:
		if g.O.Writes && !g.O.Purity {
			g.cls("stmt:write")
			return ast.Call{Fn: "write", Args: []ast.Node{g.Expr(g.valueType(), depth-1)}}
		}
		return g.assignStmt(depth)
	case 5:
		if f, ok := g.forOver(g.iterElemType(), depth, func(v string) ast.Node { return g.inner(depth - 1) }); ok {
			g.cls("stmt:for")
			return f
		}
		return g.assignStmt(depth)
	default:
		if s != nil && s.inGen {
			g.cls("stmt:yield")
			return ast.Yield{X: g.Expr(s.yieldT, depth-1)}
		}
		// expression statement
		g.cls("stmt:expr")
		return g.Expr(g.valueType(), depth-1)
	}
}

func (g *G) iterElemType() Ty { return []Ty{Int, Int, Str, Int}[g.R.Intn(4)] }

// seq packs statements into what can stand as one statement inside a body
// list; the caller splices Blocks.
type multi struct{ stmts []ast.Node }

func (g *G) seq(ss []ast.Node) ast.Node { return multi{ss} }

// inner builds a body-position statement (single statement or block).
func (g *G) inner(depth int) ast.Node {
	defer g.restore(g.mark())
	n := 1
	if g.R.Chance(1, 3) {
		n = g.R.Range(2, 3)
	}
	var ss []ast.Node
	for i := 0; i < n; i++ {
		ss = appendStmt(ss, g.Stmt(depth))
	}
	if len(ss) == 1 {
		return ss[0]
	}
	return ast.Block{Stmts: ss}
}

// mark/restore drop the declarations made inside a nested body: they may be
// unassigned at run time, so later code does not refer to them.
func (g *G) mark() int {
	if s := g.cur(); s != nil {
		return len(s.locals)
	}
	return len(g.Globals)
}

func (g *G) restore(m int) {
	if s := g.cur(); s != nil {
		s.locals = s.locals[:m]
		return
	}
	g.Globals = g.Globals[:m]
}

// scopedStmt is a statement whose own declarations are not visible afterwards.
func (g *G) scopedStmt(depth int) ast.Node {
	defer g.restore(g.mark())
	return g.Stmt(depth)
}

func appendStmt(ss []ast.Node, s ast.Node) []ast.Node {
	if m, ok := s.(multi); ok {
		return append(ss, m.stmts...)
	}
	return append(ss, s)
}

func (g *G) assignStmt(depth int) ast.Node {
	r := g.R
	if g.O.Closures && depth > 0 && len(g.scopes) > 0 && len(g.scopes) < 3 && r.Chance(1, 5) {
		// a local function (closure over the locals declared so far)
		var t Ty
		if g.O.Generators && r.Chance(1, 4) {
			t = g.genType()
		} else {
			t = g.funType()
		}
		name := g.FreshName()
		f := g.FuncLit(t, depth-1)
		g.declare(name, t, false)
		g.cls("assign:local-function")
		return ast.Assign{Name: name, Value: f}
	}
	t := g.valueType()
	if r.Chance(1, 2) {
		if name, ok := g.assignTarget(t); ok {
			g.cls("assign:existing")
			if t.K == TInt && r.Chance(1, 3) {
				if r.Bool() {
					g.cls("assign:x=x+1")
					return ast.Assign{Name: name, Value: ast.Binary{Op: "+", L: ast.Name{N: name}, R: ast.IntLit{V: 1}}}
				}
				g.cls("assign:x=1+x")
				return ast.Assign{Name: name, Value: ast.Binary{Op: "+", L: ast.IntLit{V: 1}, R: ast.Name{N: name}}}
			}
			return ast.Assign{Name: name, Value: g.Expr(t, depth)}
		}
	}
	name := g.FreshName()
	v := g.Expr(t, depth)
	g.declare(name, t, false)
	g.cls("assign:new")
	return ast.Assign{Name: name, Value: v}
}

// Body builds a function body whose value has type ret (Void: anything).
// tail says the body is the tail of a function.
func (g *G) Body(ret Ty, depth int, tail bool) ast.Node {
	r := g.R
	var ss []ast.Node
	for k := r.Intn(g.O.MaxStmts); k > 0; k-- {
		ss = appendStmt(ss, g.Stmt(depth-1))
	}
	ss = appendStmt(ss, g.tailStmt(ret, depth))
	if len(ss) == 1 {
		return ss[0]
	}
	return ast.Block{Stmts: ss}
}

// tailStmt builds a statement whose value has type ret on every path.
func (g *G) tailStmt(ret Ty, depth int) ast.Node {
	r := g.R
	if ret.K == TVoid {
		return g.Stmt(depth - 1)
	}
	if depth <= 1 {
		return g.Expr(ret, 1)
	}
	s := g.cur()
	inFn := s != nil
	switch r.Pick(10, 5, 3, 3, 2, 3) {
	case 5:
		// a loop in tail position: its value is the value of the last statement of its last iteration, and
		// that statement is itself compound (if/else, a for loop, a nested loop of the same kind)
		g.cls("tail:loop")
		i := g.FreshName()
		g.declare(i, Int, true)
		k := r.Range(1, max(1, g.O.LoopBound))
		m := g.mark()
		var last ast.Node
		switch r.Intn(3) {
		case 0:
			last = ast.If{Cond: g.Expr(Bool, depth-1), Then: g.tailBody(ret, depth-1), Else: g.tailBody(ret, depth-1)}
		case 1:
			v := g.FreshName()
			last = ast.For{Vars: []string{v}, Iters: []ast.Node{ast.Call{Fn: "fromto", Args: []ast.Node{ast.IntLit{V: 0}, ast.IntLit{V: int64(r.Range(1, 3))}}}}, Body: g.Expr(ret, depth-1)}
		default:
			last = g.tailBody(ret, depth-1)
		}
		g.restore(m)
		body := []ast.Node{ast.Assign{Name: i, Value: ast.Binary{Op: "+", L: ast.Name{N: i}, R: ast.IntLit{V: 1}}}}
		if r.Chance(1, 3) {
			body = appendStmt(body, g.scopedStmt(depth-1))
		}
		if b, ok := last.(ast.Block); ok {
			for _, st := range b.Stmts {
				body = appendStmt(body, st)
			}
		} else {
			body = appendStmt(body, last)
		}
		return multi{[]ast.Node{ast.Assign{Name: i, Value: ast.IntLit{V: 0}}, ast.While{Cond: ast.Binary{Op: "<", L: ast.Name{N: i}, R: ast.IntLit{V: int64(k)}}, Body: ast.Block{Stmts: body}}}}
	case 0:
		g.cls("tail:expr")
		return g.Expr(ret, depth-1)
	case 1:
		g.cls("tail:ifelse")
		return ast.If{Cond: g.Expr(Bool, depth-1), Then: g.tailBody(ret, depth-1), Else: g.tailBody(ret, depth-1)}
	case 2:
		if inFn {
			g.cls("tail:return")
			return ast.Return{X: g.Expr(ret, depth-1)}
		}
	case 3:
		if inFn {
			// early return followed by a value: if c return a ; b
			g.cls("tail:early-return")
			return multi{[]ast.Node{ast.If{Cond: g.Expr(Bool, depth-1), Then: ast.Return{X: g.Expr(ret, depth-1)}}, g.Expr(ret, depth-1)}}
		}
	case 4:
		name := g.FreshName()
		v := g.Expr(ret, depth-1)
		g.declare(name, ret, false)
		g.cls("tail:assign")
		return ast.Assign{Name: name, Value: v}
	}
	return g.Expr(ret, depth-1)
}

func (g *G) tailBody(ret Ty, depth int) ast.Node {
	defer g.restore(g.mark())
	var ss []ast.Node
	if g.R.Chance(1, 3) {
		ss = appendStmt(ss, g.Stmt(depth-1))
	}
	ss = appendStmt(ss, g.tailStmt(ret, depth))
	if len(ss) == 1 {
		return ss[0]
	}
	return ast.Block{Stmts: ss}
}

// ---- sessions -----------------------------------------------------------------------

func (g *G) funType() Ty {
	r := g.R
	rets := []Ty{Int, Int, Bool, Str, ArrOf(Int)}
	ret := rets[r.Intn(len(rets))]
	n := r.Intn(3)
	ps := make([]Ty, n)
	for i := range ps {
		ps[i] = []Ty{Int, Int, Str, ArrOf(Int), Bool}[r.Intn(5)]
		if g.O.Closures && r.Chance(1, 6) {
			ps[i] = FunOf(Int, Int)
		}
	}
	if g.O.Closures && r.Chance(1, 8) {
		ret = FunOf(Int, Int)
	}
	return FunOf(ret, ps...)
}

func (g *G) genType() Ty {
	r := g.R
	y := []Ty{Int, Int, Str}[r.Intn(3)]
	n := r.Intn(3)
	ps := make([]Ty, n)
	for i := range ps {
		ps[i] = []Ty{Int, Int, ArrOf(Int)}[r.Intn(3)]
	}
	return GenOf(y, ps...)
}

// RecFunc builds `f = (n, ...) -> if n <= 0 base else ... f(n-1) ...`.
func (g *G) RecFunc(name string, depth int) (ast.Node, Ty) {
	r := g.R
	ret := []Ty{Int, Str, ArrOf(Int)}[r.Intn(3)]
	t := FunOf(ret, Int)
	s := &fnScope{frozen: map[string]bool{}, retT: ret}
	if outer := g.cur(); outer != nil {
		s.captured = append([]Var{}, outer.locals...)
	}
	s.locals = []Var{{Name: "n", T: Int, Protected: true}}
	g.scopes = append(g.scopes, s)
	base := g.Expr(ret, 1)
	rec := ast.Call{Fn: name, Args: []ast.Node{ast.Binary{Op: "-", L: ast.Name{N: "n"}, R: ast.IntLit{V: 1}}}}
	var step ast.Node
	switch ret.K {
	case TInt:
		step = ast.Binary{Op: []string{"+", "*", "-"}[r.Intn(3)], L: g.Expr(Int, depth-1), R: rec}
		if r.Bool() {
			step = ast.Binary{Op: "+", L: rec, R: g.Expr(Int, depth-1)}
		}
	case TStr:
		step = ast.Binary{Op: "+", L: rec, R: g.Expr(Str, depth-1)}
	default:
		step = ast.Binary{Op: "+", L: rec, R: ast.ArrayLit{Elems: []ast.Node{ast.Name{N: "n"}}}}
	}
	var pre []ast.Node
	if r.Chance(1, 2) {
		pre = appendStmt(pre, g.Stmt(depth-1))
	}
	g.scopes = g.scopes[:len(g.scopes)-1]
	var body ast.Node = ast.If{Cond: ast.Binary{Op: "<=", L: ast.Name{N: "n"}, R: ast.IntLit{V: 0}}, Then: base, Else: step}
	if len(pre) > 0 {
		body = ast.Block{Stmts: append(pre, body)}
	}
	g.cls("fn:recursive")
	return ast.Assign{Name: name, Value: ast.FuncLit{Params: []string{"n"}, Body: body}}, t
}

// TopStmt builds one top-level statement, updating the global scope.
func (g *G) TopStmt() ast.Node {
	r := g.R
	d := g.O.MaxDepth
	for {
		switch r.Pick(10, 10, 6, 4, 10, 5, 5, 4, 3, 3) {
		case 0: // global value
			t := g.valueType()
			name := g.FreshName()
			v := g.Expr(t, d)
			g.declare(name, t, false)
			g.cls("top:assign")
			return ast.Assign{Name: name, Value: v}
		case 1: // function definition
			t := g.funType()
			name := g.FreshName()
			f := g.FuncLit(t, d)
			g.declare(name, t, false)
			g.cls("top:fundef")
			return ast.Assign{Name: name, Value: f}
		case 2: // generator definition
			if !g.O.Generators {
				continue
			}
			t := g.genType()
			name := g.FreshName()
			f := g.FuncLit(t, d)
			g.declare(name, t, false)
			g.cls("top:gendef")
			return ast.Assign{Name: name, Value: f}
		case 3:
			if !g.O.Recursion {
				continue
			}
			name := g.FreshName()
			st, t := g.RecFunc(name, d)
			g.declare(name, t, false)
			return st
		case 4: // expression
			if g.O.Generators && r.Chance(1, 8) {
				// a generator function called outside any for loop: its yields only evaluate to their operands
				for _, v := range g.Globals {
					if v.T.K == TGen {
						args := make([]ast.Node, len(v.T.Params))
						for i, p := range v.T.Params {
							args[i] = g.Expr(p, 1)
						}
						g.cls("top:naked-generator-call")
						return ast.Call{Fn: v.Name, Args: args}
					}
				}
			}
			g.cls("top:expr")
			return g.Expr(g.valueType(), d)
		case 5: // block with a value
			g.cls("top:block")
			m := g.mark()
			b := g.Body(g.valueType(), d, false)
			g.restore(m)
			return b
		case 6: // top-level loop over a generator
			if f, ok := g.forOver(g.iterElemType(), d, func(v string) ast.Node { return g.inner(d - 1) }); ok {
				g.cls("top:for")
				g.restore(g.mark())
				return f
			}
		case 7:
			g.cls("top:stmt")
			m := g.mark()
			st := g.Stmt(d)
			g.restore(m)
			if mm, ok := st.(multi); ok {
				return ast.Block{Stmts: mm.stmts}
			}
			return st
		case 8:
			if g.O.Writes {
				g.cls("top:write")
				return ast.Call{Fn: "write", Args: []ast.Node{g.Expr(g.valueType(), d-1)}}
			}
		default: // top-level return in tail position
			t := g.valueType()
			ret := ast.Return{X: g.Expr(t, d-1)}
			g.cls("top:return")
			switch r.Intn(5) {
			case 0:
				return ret
			case 1:
				m := g.mark()
				st := g.scopedStmt(d - 1)
				g.restore(m)
				return ast.Block{Stmts: appendStmt(appendStmt(nil, st), ret)}
			case 2:
				return ast.If{Cond: g.Expr(Bool, d-1), Then: ret, Else: g.Expr(t, d-1)}
			case 3:
				if f, ok := g.forOver(g.iterElemType(), d, func(v string) ast.Node { return ast.If{Cond: g.Expr(Bool, d-1), Then: ret} }); ok {
					g.restore(g.mark())
					return f
				}
				return ret
			default:
				l := g.countedLoop(d, func() []ast.Node { return []ast.Node{ast.If{Cond: g.Expr(Bool, d-1), Then: ret}} })
				return ast.Block{Stmts: l}
			}
		}
	}
}

// Session builds n top-level statements.
func (g *G) Session(n int) []ast.Node {
	out := make([]ast.Node, 0, n)
	for i := 0; i < n; i++ {
		out = append(out, g.TopStmt())
	}
	return out
}

// fault builds an int-typed expression that raises a runtime error when it
// is evaluated (at most Opts.Faults of them are planted per generator).
func (g *G) fault(depth int) ast.Node {
	r := g.R
	one := ast.IntLit{V: 1}
	switch r.Intn(11) {
	case 0:
		g.cls("fault:zerodiv")
		return ast.Binary{Op: []string{"/", "%"}[r.Intn(2)], L: g.Expr(Int, depth-1), R: ast.IntLit{V: 0}}
	case 1:
		g.cls("fault:index")
		return ast.Index{X: ast.ArrayLit{Elems: []ast.Node{one, one}}, I: ast.IntLit{V: int64(r.Range(2, 9))}}
	case 2:
		g.cls("fault:index")
		return ast.Unary{Op: "#", X: ast.Slice{X: ast.StrLit{V: "abc"}, I: ast.IntLit{V: 2}, J: one}}
	case 3:
		g.cls("fault:type")
		return ast.Binary{Op: []string{"+", "-", "*", "<<", "&"}[r.Intn(5)], L: g.Expr(Int, depth-1), R: ast.StrLit{V: "s"}}
	case 4:
		g.cls("fault:type")
		return ast.Unary{Op: []string{"-", "~", "#"}[r.Intn(3)], X: ast.BoolLit{V: true}}
	case 5:
		g.cls("fault:nil")
		return ast.Binary{Op: "+", L: ast.Name{N: "undefinedname"}, R: one}
	case 6:
		g.cls("fault:conversion")
		if r.Chance(1, 5) { // a rendered number followed by a line break is not a number
			return ast.Call{Fn: "aton", Args: []ast.Node{ast.Binary{Op: "+", L: ast.Call{Fn: "toa", Args: []ast.Node{g.Expr(Int, depth-1)}}, R: ast.StrLit{V: "\n"}}}}
		}
		return ast.Call{Fn: "aton", Args: []ast.Node{ast.StrLit{V: []string{"x1", "", "1 2", "abc", "12\n", "1.5\n", " 7", "7 ", "0x10"}[r.Intn(9)]}}}
	case 7:
		g.cls("fault:arity")
		return ast.Call{Fn: "toa", Args: []ast.Node{one, one}}
	case 8:
		g.cls("fault:arity")
		return ast.Unary{Op: "#", X: ast.Call{Fn: "toa", Args: nil}}
	case 9:
		g.cls("fault:type")
		return ast.Call{Fn: "aton", Args: []ast.Node{g.Expr(Int, depth-1)}}
	default:
		g.cls("fault:type-call")
		if vs, _ := g.varsOf(Int); len(vs) > 0 {
			return ast.Call{Fn: vs[r.Intn(len(vs))].Name, Args: []ast.Node{one}}
		}
		return ast.Binary{Op: "<", L: ast.StrLit{V: "a"}, R: one}
	}
}

// searchLoop: 1..3 nested for loops over int generators whose innermost body
// returns from the function once a condition on the loop variables holds.
func (g *G) searchLoop(depth int) (ast.Node, bool) {
	r := g.R
	s := g.cur()
	rt := s.retT
	if rt.K == TVoid {
		rt = g.valueType()
	}
	levels := r.Range(1, 3)
	m := g.mark()
	defer g.restore(m)
	var vars []string
	var its []ast.Node
	for l := 0; l < levels; l++ {
		it, ok := g.generatorExpr(Int, depth)
		if !ok {
			return nil, false
		}
		v := g.FreshName()
		g.declare(v, Int, true)
		vars = append(vars, v)
		its = append(its, it)
	}
	s.hasFor = true
	var sum ast.Node = ast.Name{N: vars[0]}
	for _, v := range vars[1:] {
		sum = ast.Binary{Op: "+", L: sum, R: ast.Name{N: v}}
	}
	cond := ast.Binary{Op: []string{">", ">=", "=="}[r.Intn(3)], L: sum, R: ast.IntLit{V: int64(r.Intn(6))}}
	var body ast.Node = ast.If{Cond: cond, Then: ast.Return{X: g.Expr(rt, depth-1)}}
	if r.Chance(1, 3) {
		body = ast.Block{Stmts: []ast.Node{g.scopedStmtNoMulti(depth - 1), body}}
	}
	for l := levels - 1; l >= 0; l-- {
		body = ast.For{Vars: []string{vars[l]}, Iters: []ast.Node{its[l]}, Body: body}
	}
	g.cls(fmt.Sprintf("stmt:search-loop-%d", levels))
	return body, true
}

// scopedStmtNoMulti is scopedStmt that always yields exactly one statement.
func (g *G) scopedStmtNoMulti(depth int) ast.Node {
	st := g.scopedStmt(depth)
	if mm, ok := st.(multi); ok {
		if len(mm.stmts) > 0 {
			return mm.stmts[0]
		}
		return ast.IntLit{V: 0}
	}
	return st
}

// Helpers returns definitions of fixed helper functions and makes them
// visible to the generator: tclob uses the temp register and loops, so a call
// to it clobbers whatever the caller wrongly left in VM-wide registers.
func (g *G) Helpers() []ast.Node {
	n := ast.Name{N: "n"}
	defs := []ast.Node{
		ast.Assign{Name: "tclob", Value: ast.FuncLit{Params: []string{"n"}, Body: ast.Binary{Op: "-", L: ast.Binary{Op: "*", L: ast.Binary{Op: "+", L: n, R: ast.IntLit{V: 0}}, R: ast.IntLit{V: 1}}, R: ast.IntLit{V: 0}}}},
		ast.Assign{Name: "tloop", Value: ast.FuncLit{Params: []string{"n"}, Body: ast.Block{Stmts: []ast.Node{
			ast.Assign{Name: "r", Value: ast.IntLit{V: 0}},
			ast.For{Vars: []string{"i"}, Iters: []ast.Node{ast.Call{Fn: "fromto", Args: []ast.Node{ast.IntLit{V: 0}, ast.IntLit{V: 2}}}}, Body: ast.Assign{Name: "r", Value: ast.Binary{Op: "+", L: ast.Binary{Op: "*", L: ast.Name{N: "r"}, R: ast.IntLit{V: 0}}, R: n}}},
			ast.Name{N: "r"}}}}},
	}
	g.Globals = append(g.Globals, Var{Name: "tclob", T: FunOf(Int, Int)}, Var{Name: "tloop", T: FunOf(Int, Int)})
	// numerically equal int and float literals next to each other (the function has no other constants between
	// them), and a slice taken beyond the length of a slice that has spare capacity behind it
	k := int64(g.R.Range(2, 9))
	defs = append(defs,
		ast.Assign{Name: "tmix", Value: ast.FuncLit{Params: []string{"n"}, Body: ast.Binary{Op: "+", L: ast.Binary{Op: "/", L: n, R: ast.IntLit{V: k}}, R: ast.Binary{Op: "/", L: n, R: ast.FloatLit{V: float64(k)}}}}},
		ast.Call{Fn: "tmix", Args: []ast.Node{ast.IntLit{V: int64(g.R.Range(1, 50))}}},
		ast.Assign{Name: "tmixb", Value: ast.FuncLit{Params: []string{"n"}, Body: ast.Binary{Op: "+", L: ast.Binary{Op: "*", L: n, R: ast.FloatLit{V: float64(k)}}, R: ast.Binary{Op: "%", L: n, R: ast.IntLit{V: k}}}}},
		ast.Call{Fn: "tmixb", Args: []ast.Node{ast.IntLit{V: int64(g.R.Range(1, 50))}}})
	if g.O.Faults > 0 || g.R.Chance(1, 4) {
		defs = append(defs,
			ast.Assign{Name: "tpre", Value: ast.Slice{X: ast.ArrayLit{Elems: []ast.Node{ast.IntLit{V: 1}, ast.IntLit{V: 2}, ast.IntLit{V: 3}, ast.IntLit{V: 4}}}, I: ast.IntLit{V: 0}, J: ast.IntLit{V: 2}}},
			ast.Unary{Op: "#", X: ast.Slice{X: ast.Name{N: "tpre"}, I: ast.IntLit{V: 0}, J: ast.IntLit{V: int64(g.R.Range(3, 4))}}})
	}
	if g.O.Writes && !g.O.Purity {
		defs = append(defs, ast.Assign{Name: "tsay", Value: ast.FuncLit{Params: []string{"b"}, Body: ast.Block{Stmts: []ast.Node{ast.Call{Fn: "write", Args: []ast.Node{ast.StrLit{V: "?"}}}, ast.Name{N: "b"}}}}})
		g.SayCond = true
	}
	if g.R.Chance(1, 3) {
		// a built-in name rebound to an ordinary function that uses the temp register: a call through that
		// name is a call like any other (the session does not use the real built-in)
		nm := []string{"read", "aton"}[g.R.Intn(2)]
		defs = append(defs, ast.Assign{Name: nm, Value: ast.FuncLit{Params: []string{"n"}, Body: ast.Binary{Op: "-", L: ast.Binary{Op: "+", L: ast.Binary{Op: "*", L: n, R: ast.IntLit{V: 1}}, R: ast.IntLit{V: 7}}, R: ast.IntLit{V: 7}}}})
		g.Globals = append(g.Globals, Var{Name: nm, T: FunOf(Int, Int)})
		g.O.Faults = 0 // the planted faults call aton
	}
	return defs
}
