package gen

import (
	"fmt"

	"verif/ast"
	"verif/core"
)

// Name-pressure programs for C04: a handful of names is reused at once as
// global, parameter, local, for-variable, captured variable and inner local.
// Every function snapshots all its visible names before and after each call it
// makes and writes "DIFF:<where>" if a call changed anything it must not; the
// reference semantics supplies the absolute expectations.

type scopeGen struct {
	r     *core.Rng
	names []string
	seq   int
}

func (s *scopeGen) lit() ast.Node {
	switch s.r.Intn(3) {
	case 0:
		return ast.StrLit{V: fmt.Sprintf("s%d", s.r.Intn(90))}
	default:
		return ast.IntLit{V: int64(s.r.Intn(1000))}
	}
}

func (s *scopeGen) snapshot() ast.Node {
	es := make([]ast.Node, len(s.names))
	for i, n := range s.names {
		// toa(n) also renders nil/functions, so the array never holds nil and == stays defined
		es[i] = call("toa", name(n))
	}
	return ast.ArrayLit{Elems: es}
}

// bound is a loop bound 1..3; half of the time it is computed from the variable
// named v as the loop's function sees it *before* the loop (an iterator
// expression is outside the scope of the loop's own variables).
func (s *scopeGen) bound(v string) ast.Node {
	if s.r.Bool() {
		return ast.IntLit{V: int64(s.r.Range(1, 3))}
	}
	return ast.Binary{Op: "+", L: ast.Binary{Op: "%", L: ast.Unary{Op: "#", X: call("toa", name(v))}, R: ast.IntLit{V: 3}}, R: ast.IntLit{V: 1}}
}

func (s *scopeGen) fresh(prefix string) string {
	s.seq++
	return fmt.Sprintf("%s%c%c", prefix, 'a'+s.seq/26%26, 'a'+s.seq%26)
}

// guardCall wraps a call statement with before/after snapshots of every name.
func (s *scopeGen) guardCall(where string, callStmt ast.Node) []ast.Node {
	b, a := s.fresh("zb"), s.fresh("za")
	return []ast.Node{
		ast.Assign{Name: b, Value: s.snapshot()},
		callStmt,
		ast.Assign{Name: a, Value: s.snapshot()},
		ast.If{Cond: ast.Binary{Op: "!=", L: name(b), R: name(a)}, Then: call("write", ast.Binary{Op: "+", L: ast.StrLit{V: "DIFF:" + where + " "}, R: ast.Binary{Op: "+", L: call("toa", name(b)), R: call("toa", name(a))}})},
	}
}

// fnInfo says how to reach and call the closure a function lets escape.
type fnInfo struct {
	nparams  int
	esc      *fnInfo // the escaped inner function, if any
	escShape int     // 0 direct, 1 [f], 2 [[1, f]]
	escIndex int     // index in the result array
}

// function builds a function literal at nesting level lvl (1 = defined at top level).
func (s *scopeGen) function(lvl int, tag string) (ast.FuncLit, *fnInfo) {
	r := s.r
	var params []string
	roles := map[string]int{}
	for _, n := range s.names {
		roles[n] = r.Intn(6) // 0 param, 1 x = x op k (README pattern), 2 fresh local, 3 for-variable, 4,5 untouched (reads outer)
		if roles[n] == 0 {
			params = append(params, n)
		}
	}
	info := &fnInfo{nparams: len(params)}
	var ss []ast.Node
	ss = append(ss, call("write", ast.Binary{Op: "+", L: ast.StrLit{V: "enter " + tag + " "}, R: call("toa", s.snapshot())}))
	for _, n := range s.names {
		switch roles[n] {
		case 1:
			if r.Chance(1, 3) {
				// the plain copy idiom: the right-hand side is the outer variable, the target this function's own
				ss = append(ss, ast.Assign{Name: n, Value: name(n)})
			}
			ss = append(ss, ast.Assign{Name: n, Value: ast.Binary{Op: "+", L: call("toa", name(n)), R: ast.StrLit{V: "+" + tag}}})
		case 2:
			ss = append(ss, ast.Assign{Name: n, Value: s.lit()})
		}
	}
	for _, n := range s.names {
		if roles[n] == 3 {
			// for-variable declares a local of that name; the body records it
			acc := s.fresh("zc")
			ss = append(ss, ast.Assign{Name: acc, Value: ast.IntLit{V: 0}},
				ast.For{Vars: []string{n}, Iters: []ast.Node{call("fromto", ast.IntLit{V: 0}, s.bound(n))}, Body: ast.Assign{Name: acc, Value: ast.Binary{Op: "+", L: name(acc), R: name(n)}}})
		}
	}
	if r.Chance(1, 2) {
		// a zipped loop whose variables mix names that already are locals here with new ones, in both orders
		var known, fresh []string
		for _, n := range s.names {
			if roles[n] <= 3 {
				known = append(known, n)
			}
		}
		fresh = append(fresh, s.fresh("zv"))
		if len(known) > 0 {
			vars := []string{known[r.Intn(len(known))], fresh[0]}
			if r.Chance(1, 3) {
				vars[0], vars[1] = vars[1], vars[0]
			}
			after := s.fresh("zw")
			acc := s.fresh("zc")
			ss = append(ss, ast.Assign{Name: acc, Value: ast.StrLit{V: ""}},
				ast.For{Vars: vars, Iters: []ast.Node{call("fromto", ast.IntLit{V: 0}, s.bound(vars[1])), call("elems", ast.Binary{Op: "+", L: ast.StrLit{V: "pq"}, R: call("toa", name(vars[0]))})},
					Body: ast.Block{Stmts: []ast.Node{ast.Assign{Name: after, Value: ast.IntLit{V: 100}}, ast.Assign{Name: acc, Value: ast.Binary{Op: "+", L: name(acc), R: ast.Binary{Op: "+", L: call("toa", name(vars[0])), R: call("toa", name(vars[1]))}}}}}},
				call("write", ast.Binary{Op: "+", L: ast.StrLit{V: " zip " + tag + " "}, R: ast.Binary{Op: "+", L: name(acc), R: call("toa", name(after))}}))
		}
	}
	if r.Chance(1, 3) {
		// a name whose first assignment in a function sits in the body of a while loop whose condition reads it: at
		// the first test the function has no variable of that name yet, so the condition reads the outer one
		// (the body returns, so there is no second test)
		n := s.names[r.Intn(len(s.names))]
		wf, wr := s.fresh("zh"), s.fresh("zr")
		ss = append(ss, ast.Assign{Name: wf, Value: ast.FuncLit{Body: ast.While{
			Cond: ast.Binary{Op: "!=", L: call("toa", name(n)), R: ast.StrLit{V: "nil"}},
			Body: ast.Block{Stmts: []ast.Node{
				ast.Assign{Name: n, Value: ast.Binary{Op: "+", L: call("toa", name(n)), R: ast.StrLit{V: "+w"}}},
				ast.Return{X: name(n)}}}}}},
			ast.Assign{Name: wr, Value: call(wf)},
			call("write", ast.Binary{Op: "+", L: ast.StrLit{V: " wh " + tag + " "}, R: name(wr)}))
	}
	if r.Chance(1, 3) {
		// a name first created in one branch of an if/else and read in the other, inside a closure of this
		// function: in the branch that reads, the closure has no variable of that name (yet), so it is the outer one
		n := s.names[r.Intn(len(s.names))]
		bf, br := s.fresh("zi"), s.fresh("zr")
		create := ast.Assign{Name: n, Value: ast.Binary{Op: "+", L: call("toa", name(n)), R: ast.StrLit{V: "+b"}}}
		read := ast.Binary{Op: "+", L: ast.StrLit{V: "saw "}, R: call("toa", name(n))}
		var body ast.Node = ast.If{Cond: name("zc"), Then: create, Else: read}
		if r.Bool() {
			body = ast.If{Cond: name("zc"), Then: read, Else: create}
		}
		ss = append(ss, ast.Assign{Name: bf, Value: ast.FuncLit{Params: []string{"zc"}, Body: body}},
			ast.Assign{Name: br, Value: ast.ArrayLit{Elems: []ast.Node{call(bf, ast.BoolLit{V: true}), call(bf, ast.BoolLit{V: false})}}},
			call("write", ast.Binary{Op: "+", L: ast.StrLit{V: " br " + tag + " "}, R: call("toa", name(br))}))
	}
	ss = append(ss, call("write", ast.Binary{Op: "+", L: ast.StrLit{V: " mid " + tag + " "}, R: call("toa", s.snapshot())}))
	var result []ast.Node
	if lvl < 3 && r.Chance(3, 4) {
		inner := s.fresh("zf")
		fl, innerInfo := s.function(lvl+1, tag+"/"+inner)
		ss = append(ss, ast.Assign{Name: inner, Value: fl})
		args := make([]ast.Node, len(fl.Params))
		for i := range args {
			args[i] = s.lit()
			if r.Bool() && len(s.names) > 0 {
				args[i] = call("toa", name(s.names[r.Intn(len(s.names))]))
			}
		}
		res := s.fresh("zr")
		ss = append(ss, s.guardCall(tag+"->"+inner, ast.Assign{Name: res, Value: ast.Call{Fn: inner, Args: args}})...)
		result = append(result, call("toa", name(res)))
		if r.Chance(1, 2) {
			// grow the stack while this frame (and the closure's frame header) is live
			ss = append(ss, ast.Assign{Name: s.fresh("zd"), Value: call("zdeep", ast.IntLit{V: int64(r.Range(40, 500))})})
		}
		if r.Chance(1, 2) {
			// update a variable the inner function may capture, then call it again: sharing until return
			n := s.names[r.Intn(len(s.names))]
			if roles[n] != 4 && roles[n] != 5 {
				ss = append(ss, ast.Assign{Name: n, Value: ast.Binary{Op: "+", L: call("toa", name(n)), R: ast.StrLit{V: "!"}}})
				res2 := s.fresh("zr")
				ss = append(ss, s.guardCall(tag+"->"+inner+"#2", ast.Assign{Name: res2, Value: ast.Call{Fn: inner, Args: args}})...)
				result = append(result, call("toa", name(res2)))
			}
		}
		if r.Chance(2, 3) {
			// let the closure escape: directly, in an array, or in an array of arrays
			info.esc = innerInfo
			info.escShape = r.Intn(3)
			info.escIndex = len(result) + 1
			switch info.escShape {
			case 0:
				result = append(result, name(inner))
			case 1:
				result = append(result, ast.ArrayLit{Elems: []ast.Node{name(inner)}})
			default:
				result = append(result, ast.ArrayLit{Elems: []ast.Node{ast.ArrayLit{Elems: []ast.Node{ast.IntLit{V: 1}, name(inner)}}}})
			}
		}
	}
	result = append([]ast.Node{call("toa", s.snapshot())}, result...)
	ss = append(ss, ast.ArrayLit{Elems: result})
	return ast.FuncLit{Params: params, Body: ast.Block{Stmts: ss}}, info
}

// ScopeProgram builds a name-pressure session.
func ScopeProgram(r *core.Rng) []ast.Node {
	s := &scopeGen{r: r}
	pool := []string{"a", "b", "c", "x", "n"}
	k := r.Range(2, 5)
	s.names = pool[:k]
	var stmts []ast.Node
	for _, n := range s.names {
		if r.Chance(4, 5) { // some names stay undefined globals
			stmts = append(stmts, ast.Assign{Name: n, Value: s.lit()})
		}
	}
	stmts = append(stmts, ast.Assign{Name: "zdeep", Value: ast.FuncLit{Params: []string{"q"}, Body: ast.If{Cond: ast.Binary{Op: "<=", L: name("q"), R: ast.IntLit{V: 0}}, Then: ast.IntLit{V: 0}, Else: ast.Binary{Op: "+", L: ast.IntLit{V: 1}, R: call("zdeep", ast.Binary{Op: "-", L: name("q"), R: ast.IntLit{V: 1}})}}}})
	stmts = append(stmts,
		ast.Assign{Name: "zcz", Value: ast.FuncLit{Params: []string{"fn"}, Body: ast.Call{Fn: "fn"}}},
		ast.Assign{Name: "zco", Value: ast.FuncLit{Params: []string{"fn", "p"}, Body: ast.Call{Fn: "fn", Args: []ast.Node{name("p")}}}},
		ast.Assign{Name: "zct", Value: ast.FuncLit{Params: []string{"fn", "p", "q"}, Body: ast.Call{Fn: "fn", Args: []ast.Node{name("p"), name("q")}}}},
		ast.Assign{Name: "zch", Value: ast.FuncLit{Params: []string{"fn", "p", "q", "r"}, Body: ast.Call{Fn: "fn", Args: []ast.Node{name("p"), name("q"), name("r")}}}})
	nf := r.Range(1, 2)
	for i := 0; i < nf; i++ {
		fn := s.fresh("zt")
		fl, info := s.function(1, fn)
		stmts = append(stmts, ast.Assign{Name: fn, Value: fl})
		cur := fn
		for info != nil {
			args := make([]ast.Node, info.nparams)
			for j := range args {
				args[j] = s.lit()
			}
			res := s.fresh("zq")
			snap := s.fresh("zg")
			stmts = append(stmts, ast.Assign{Name: snap, Value: s.snapshot()})
			if r.Chance(1, 2) && len(args) <= 3 {
				// through a plain function that defines no closure itself
				w := []string{"zcz", "zco", "zct", "zch"}[len(args)]
				stmts = append(stmts, ast.Assign{Name: res, Value: ast.Call{Fn: w, Args: append([]ast.Node{name(cur)}, args...)}})
			} else {
				stmts = append(stmts, ast.Assign{Name: res, Value: ast.Call{Fn: cur, Args: args}})
			}
			stmts = append(stmts, ast.If{Cond: ast.Binary{Op: "!=", L: name(snap), R: s.snapshot()}, Then: call("write", ast.StrLit{V: "DIFF:globals changed by " + cur})})
			// overwrite the dead frames, then dig out the escaped closure and call it
			stmts = append(stmts, call("zdeep", ast.IntLit{V: int64(r.Range(5, 200))}))
			if info.esc == nil {
				break
			}
			var e ast.Node = ast.Index{X: name(res), I: ast.IntLit{V: int64(info.escIndex)}}
			switch info.escShape {
			case 1:
				e = ast.Index{X: e, I: ast.IntLit{V: 0}}
			case 2:
				e = ast.Index{X: ast.Index{X: e, I: ast.IntLit{V: 0}}, I: ast.IntLit{V: 1}}
			}
			cur = s.fresh("ze")
			stmts = append(stmts, ast.Assign{Name: cur, Value: e})
			info = info.esc
		}
	}
	return stmts
}
