package gen

import (
	"fmt"

	"verif/ast"
	"verif/core"
)

// Closure-plumbing programs (C04 "hof", C10 "closures"): function values are
// defined next to each other in one call, routed through other functions
// (returned unchanged, picked, wrapped in a capturing closure, yielded by a
// generator and returned out of the consuming loop), called while the defining
// call is still live and its variables change, and called again after it
// returned and other calls, deep recursion and loops reused the stack and the
// iterator contexts. Everything observed is either written or ends up in a
// global, so the differential and the globals-frame monitor see it.

type hofClosure struct {
	name string
	kind int // 0: () -> data, 1: () -> closure of kind 0, 2: () -> [closure of kind 0]
}

type hofGen struct {
	r    *core.Rng
	seq  int
	data int // 0 int, 1 array, 2 string
}

func (h *hofGen) fresh(p string) string {
	h.seq++
	return fmt.Sprintf("%s%c%c", p, 'a'+h.seq/26%26, 'a'+h.seq%26)
}

func (h *hofGen) lit() ast.Node {
	switch h.data {
	case 0:
		return ilit(h.r.Intn(50))
	case 1:
		n := h.r.Range(0, 3)
		es := make([]ast.Node, n)
		for i := range es {
			es[i] = ilit(h.r.Intn(9))
		}
		return ast.ArrayLit{Elems: es}
	}
	return ast.StrLit{V: fmt.Sprintf("s%d", h.r.Intn(90))}
}

func (h *hofGen) delta() ast.Node {
	switch h.data {
	case 0:
		return ilit(h.r.Range(1, 9))
	case 1:
		return ast.ArrayLit{Elems: []ast.Node{ilit(h.r.Intn(9))}}
	}
	return ast.StrLit{V: string(rune('a' + h.r.Intn(26)))}
}

func (h *hofGen) junk() []ast.Node {
	r := h.r
	switch r.Intn(7) {
	case 5, 6:
		// a loop whose (recycled) iterator context works deep into its stack
		return []ast.Node{ast.For{Vars: []string{h.fresh("zi")}, Iters: []ast.Node{call("zdgen", ilit(r.Range(2, 60)))}, Body: ilit(0)}}
	case 0:
		return []ast.Node{call("zjunk", ast.ArrayLit{Elems: []ast.Node{ilit(7)}}, ast.ArrayLit{Elems: []ast.Node{ilit(8)}})}
	case 1:
		return []ast.Node{call("zdeep", ilit(r.Range(3, 160)))}
	case 2:
		return []ast.Node{ast.For{Vars: []string{h.fresh("zi")}, Iters: []ast.Node{call("fromto", ilit(0), ilit(r.Range(1, 4)))}, Body: ilit(0)}}
	case 3:
		return []ast.Node{ast.For{Vars: []string{h.fresh("zi"), h.fresh("zj")}, Iters: []ast.Node{call("fromto", ilit(0), ilit(r.Range(1, 4))), call("elems", ast.StrLit{V: "pqrs"})}, Body: ilit(0)}}
	}
	return []ast.Node{call("zjunk", ilit(r.Intn(99)), ilit(r.Intn(99))), call("zdeep", ilit(r.Range(1, 30)))}
}

// observe returns statements that call a closure down to its data and hand
// the data to sink.
func (h *hofGen) observe(c hofClosure, sink func(ast.Node) ast.Node) []ast.Node {
	switch c.kind {
	case 0:
		return []ast.Node{sink(call(c.name))}
	case 1:
		t := h.fresh("zt")
		return []ast.Node{ast.Assign{Name: t, Value: call(c.name)}, sink(call(t))}
	}
	t := h.fresh("zt")
	return []ast.Node{ast.Assign{Name: t, Value: ast.Index{X: call(c.name), I: ilit(0)}}, sink(call(t))}
}

// definer builds a function that defines closures over its own variables.
// It returns [log, closure...]; kinds describes the closures.
func (h *hofGen) definer(lvl int) (ast.FuncLit, []hofClosure) {
	r := h.r
	p := h.fresh("zp")
	vars := []string{p}
	var ss []ast.Node
	out := h.fresh("zo")
	ss = append(ss, ast.Assign{Name: out, Value: ast.ArrayLit{}})
	if r.Bool() {
		v := h.fresh("zx")
		vars = append(vars, v)
		ss = append(ss, ast.Assign{Name: v, Value: h.lit()})
	}
	var cl []hofClosure
	pickKind := func(k int) (hofClosure, bool) {
		var c []hofClosure
		for _, x := range cl {
			if x.kind == k {
				c = append(c, x)
			}
		}
		if len(c) == 0 {
			return hofClosure{}, false
		}
		return c[r.Intn(len(c))], true
	}
	log := func(e ast.Node) ast.Node {
		return ast.Assign{Name: out, Value: ast.Binary{Op: "+", L: name(out), R: ast.ArrayLit{Elems: []ast.Node{e}}}}
	}
	defG := func() {
		n := h.fresh("zg")
		v := vars[r.Intn(len(vars))]
		var body ast.Node = name(v)
		switch r.Intn(4) {
		case 0:
			body = ast.Binary{Op: "+", L: name(v), R: name(vars[r.Intn(len(vars))])}
		case 1:
			body = ast.ArrayLit{Elems: []ast.Node{name(v), name(vars[r.Intn(len(vars))])}}
		}
		ss = append(ss, ast.Assign{Name: n, Value: thunk(body)})
		cl = append(cl, hofClosure{n, 0})
	}
	defG()
	for k := r.Range(4, 14); k > 0; k-- {
		switch r.Intn(10) {
		case 0:
			defG()
		case 1: // a sibling that hands out or calls another closure of this call
			g, ok := pickKind(0)
			if !ok {
				continue
			}
			n := h.fresh("zw")
			switch r.Intn(3) {
			case 0:
				ss = append(ss, ast.Assign{Name: n, Value: thunk(name(g.name))})
				cl = append(cl, hofClosure{n, 1})
			case 1:
				ss = append(ss, ast.Assign{Name: n, Value: thunk(ast.ArrayLit{Elems: []ast.Node{name(g.name)}})})
				cl = append(cl, hofClosure{n, 2})
			default:
				ss = append(ss, ast.Assign{Name: n, Value: thunk(call(g.name))})
				cl = append(cl, hofClosure{n, 0})
			}
		case 2, 3: // a captured variable changes while the call is live
			v := vars[r.Intn(len(vars))]
			ss = append(ss, ast.Assign{Name: v, Value: ast.Binary{Op: "+", L: name(v), R: h.delta()}})
		case 4, 5: // route a closure through other functions
			c := cl[r.Intn(len(cl))]
			n := h.fresh("zr")
			switch r.Intn(6) {
			case 0:
				ss = append(ss, ast.Assign{Name: n, Value: call("zid", name(c.name))})
			case 1:
				o, _ := pickKind(c.kind)
				a, b := name(c.name), name(o.name)
				cond := r.Bool()
				if !cond {
					a, b = b, a
				}
				ss = append(ss, ast.Assign{Name: n, Value: call("zpick", ast.BoolLit{V: cond}, a, b)})
			case 2:
				ss = append(ss, ast.Assign{Name: n, Value: ast.Index{X: ast.ArrayLit{Elems: []ast.Node{name(c.name)}}, I: ilit(0)}})
			case 3:
				ss = append(ss, ast.Assign{Name: n, Value: call("zfirst", name(c.name))})
			case 4:
				t := h.fresh("zt")
				ss = append(ss, ast.Assign{Name: t, Value: call("zhold", name(c.name))}, ast.Assign{Name: n, Value: call(t)})
			default:
				ss = append(ss, ast.Assign{Name: n, Value: call("zid", call("zid", name(c.name)))})
			}
			cl = append(cl, hofClosure{n, c.kind})
		case 6: // unwrap
			c := cl[r.Intn(len(cl))]
			if c.kind == 0 {
				continue
			}
			n := h.fresh("zu")
			if c.kind == 1 {
				ss = append(ss, ast.Assign{Name: n, Value: call(c.name)})
			} else {
				ss = append(ss, ast.Assign{Name: n, Value: ast.Index{X: call(c.name), I: ilit(0)}})
			}
			cl = append(cl, hofClosure{n, 0})
		case 7:
			if r.Bool() {
				ss = append(ss, h.observe(cl[r.Intn(len(cl))], log)...)
				continue
			}
			// function literals written directly in a for iterator expression (they are created in the
			// iterator context's copy of this frame); the last one escapes the loop
			v := vars[r.Intn(len(vars))]
			n, lv := h.fresh("zk"), h.fresh("zl")
			lits := []ast.Node{thunk(name(v))}
			if r.Bool() {
				lits = append(lits, thunk(ast.ArrayLit{Elems: []ast.Node{name(v), name(vars[r.Intn(len(vars))])}}))
			}
			var it ast.Node = call("elems", ast.ArrayLit{Elems: lits})
			if r.Chance(1, 3) {
				it = call("zgone", lits[0])
			}
			ss = append(ss, ast.Assign{Name: n, Value: thunk(name(v))},
				ast.For{Vars: []string{lv}, Iters: []ast.Node{it}, Body: ast.If{Cond: ast.Binary{Op: "==", L: call("toa", name(lv)), R: ast.StrLit{V: "function"}}, Then: ast.Assign{Name: n, Value: name(lv)}}})
			cl = append(cl, hofClosure{n, 0})
		case 8:
			ss = append(ss, h.observe(cl[r.Intn(len(cl))], log)...)
		default:
			ss = append(ss, h.junk()...)
			if lvl < 2 && r.Chance(1, 2) {
				// a nested definer: its closures see its own variables only
				fl, kinds := h.definer(lvl + 1)
				fn, res := h.fresh("zm"), h.fresh("zq")
				ss = append(ss, ast.Assign{Name: fn, Value: fl}, ast.Assign{Name: res, Value: call(fn, name(vars[r.Intn(len(vars))]))})
				ss = append(ss, log(ast.Index{X: name(res), I: ilit(0)}))
				for i, k := range kinds {
					if r.Chance(1, 2) {
						n := h.fresh("zn")
						ss = append(ss, ast.Assign{Name: n, Value: ast.Index{X: name(res), I: ilit(i + 1)}})
						cl = append(cl, hofClosure{n, k.kind})
					}
				}
			}
		}
	}
	// what leaves the call
	var esc []hofClosure
	elems := []ast.Node{name(out)}
	for _, c := range cl {
		if r.Chance(1, 2) && len(esc) < 5 {
			esc = append(esc, c)
			elems = append(elems, name(c.name))
		}
	}
	if len(esc) == 0 {
		esc = append(esc, cl[len(cl)-1])
		elems = append(elems, name(cl[len(cl)-1].name))
	}
	ss = append(ss, ast.ArrayLit{Elems: elems})
	return ast.FuncLit{Params: []string{p}, Body: ast.Block{Stmts: ss}}, esc
}

// generatorDefiner builds a generator that yields closures over its own
// variables, changing them between the yields.
func (h *hofGen) generatorDefiner() (ast.FuncLit, int) {
	r := h.r
	p := h.fresh("zp")
	v := h.fresh("zx")
	ss := []ast.Node{ast.Assign{Name: v, Value: name(p)}}
	n := r.Range(2, 5)
	g := ""
	for i := 0; i < n; i++ {
		if g == "" || r.Bool() {
			g = h.fresh("zg")
			var body ast.Node = name(v)
			if r.Chance(1, 3) {
				body = ast.ArrayLit{Elems: []ast.Node{name(v), name(p)}}
			}
			ss = append(ss, ast.Assign{Name: g, Value: thunk(body)})
		}
		if r.Chance(1, 3) {
			ss = append(ss, call("zemit", name(g))) // the yield happens in a call below the frame that defined g
		} else {
			ss = append(ss, ast.Yield{X: name(g)})
		}
		if r.Chance(2, 3) {
			ss = append(ss, ast.Assign{Name: v, Value: ast.Binary{Op: "+", L: name(v), R: h.delta()}})
		}
		if r.Chance(1, 4) {
			ss = append(ss, call("zdeep", ilit(r.Range(20, 150))))
		}
	}
	return ast.FuncLit{Params: []string{p}, Body: ast.Block{Stmts: ss}}, n
}

// HofProgram builds a closure-plumbing session. data selects the kind of the
// captured values (0 int, 1 array, 2 string, -1 random); generatorsOnly keeps
// only the sessions whose closures are yielded by generators.
func HofProgram(r *core.Rng, data int, generatorsOnly bool) []ast.Node {
	if data < 0 {
		data = r.Intn(3)
	}
	h := &hofGen{r: r, data: data}
	f := func(params []string, body ast.Node) ast.Node { return ast.FuncLit{Params: params, Body: body} }
	stmts := []ast.Node{
		ast.Assign{Name: "zid", Value: f([]string{"f"}, name("f"))},
		ast.Assign{Name: "zpick", Value: f([]string{"c", "f", "h"}, ast.If{Cond: name("c"), Then: name("f"), Else: name("h")})},
		ast.Assign{Name: "zhold", Value: f([]string{"f"}, thunk(name("f")))},
		ast.Assign{Name: "zgone", Value: f([]string{"e"}, ast.Block{Stmts: []ast.Node{ast.Yield{X: name("e")}, ast.Yield{X: ilit(0)}}})},
		ast.Assign{Name: "zfirst", Value: f([]string{"f"}, ast.For{Vars: []string{"h"}, Iters: []ast.Node{call("zgone", name("f"))}, Body: ast.Return{X: name("h")}})},
		ast.Assign{Name: "zemit", Value: f([]string{"e"}, ast.Block{Stmts: []ast.Node{ast.Assign{Name: "w", Value: ilit(5)}, ast.Yield{X: name("e")}}})},
		ast.Assign{Name: "zdgen", Value: f([]string{"q"}, ast.Block{Stmts: []ast.Node{call("zdeep", name("q")), ast.Yield{X: name("q")}, call("zdeep", name("q"))}})},
		ast.Assign{Name: "zsel", Value: f([]string{"w", "l"}, ast.If{Cond: ast.Binary{Op: "==", L: call("toa", name("w")), R: ast.StrLit{V: "function"}}, Then: name("w"),
			Else: ast.If{Cond: name("l"), Then: ast.Index{X: ast.Index{X: name("w"), I: ilit(1)}, I: ast.Binary{Op: "-", L: ast.Unary{Op: "#", X: ast.Index{X: name("w"), I: ilit(1)}}, R: ilit(1)}}, Else: ast.Index{X: ast.Index{X: name("w"), I: ilit(1)}, I: ilit(0)}}})},
		ast.Assign{Name: "zjunk", Value: f([]string{"p", "q"}, ast.Binary{Op: "+", L: name("p"), R: name("q")})},
		ast.Assign{Name: "zdeep", Value: f([]string{"q"}, ast.If{Cond: ast.Binary{Op: "<=", L: name("q"), R: ilit(0)}, Then: ilit(0), Else: ast.Binary{Op: "+", L: ilit(1), R: call("zdeep", ast.Binary{Op: "-", L: name("q"), R: ilit(1)})}})},
	}
	sinkTo := func(n string) func(ast.Node) ast.Node {
		return func(e ast.Node) ast.Node { return ast.Assign{Name: n, Value: e} }
	}
	nPrelude := len(stmts)
	// iterator contexts are recycled within one top-level statement only: half of the sessions are one block
	oneBlock := r.Bool()
	for k := r.Range(1, 2); k > 0; k-- {
		if !generatorsOnly && r.Chance(2, 3) {
			fl, esc := h.definer(1)
			fn, res := h.fresh("zm"), h.fresh("zq")
			stmts = append(stmts, ast.Assign{Name: fn, Value: fl}, ast.Assign{Name: res, Value: call(fn, h.lit())})
			stmts = append(stmts, h.junk()...)
			var top []hofClosure
			for i, c := range esc {
				n := h.fresh("ze")
				stmts = append(stmts, ast.Assign{Name: n, Value: ast.Index{X: name(res), I: ilit(i + 1)}})
				top = append(top, hofClosure{n, c.kind})
			}
			for j := r.Range(2, 6); j > 0; j-- {
				c := top[r.Intn(len(top))]
				stmts = append(stmts, h.observe(c, sinkTo(h.fresh("zv")))...)
				if r.Bool() {
					stmts = append(stmts, h.junk()...)
				}
				if r.Chance(1, 4) {
					// route an escaped closure once more, at top level
					n := h.fresh("ze")
					stmts = append(stmts, ast.Assign{Name: n, Value: call([]string{"zid", "zfirst"}[r.Intn(2)], name(c.name))})
					top = append(top, hofClosure{n, c.kind})
				}
			}
			continue
		}
		// closures yielded by a generator; the consumer keeps them, calls them, and may leave early
		fl, n := h.generatorDefiner()
		gn, cons, res := h.fresh("zy"), h.fresh("zc"), h.fresh("zq")
		stmts = append(stmts, ast.Assign{Name: gn, Value: fl})
		acc, hs := h.fresh("za"), h.fresh("zh")
		stop := r.Range(1, n+1)
		body := []ast.Node{
			ast.Assign{Name: acc, Value: ast.Binary{Op: "+", L: name(acc), R: ast.ArrayLit{Elems: []ast.Node{call("hh")}}}},
			ast.Assign{Name: hs, Value: ast.Binary{Op: "+", L: name(hs), R: ast.ArrayLit{Elems: []ast.Node{name("hh")}}}},
		}
		switch r.Intn(3) {
		case 0:
			body = append(body, ast.If{Cond: ast.Binary{Op: ">=", L: ast.Unary{Op: "#", X: name(hs)}, R: ilit(stop)}, Then: ast.Return{X: ast.ArrayLit{Elems: []ast.Node{name(acc), name(hs)}}}})
		case 1:
			body = append(body, ast.If{Cond: ast.Binary{Op: ">=", L: ast.Unary{Op: "#", X: name(hs)}, R: ilit(stop)}, Then: ast.Return{X: name("hh")}})
		}
		cf := f([]string{"v"}, ast.Block{Stmts: []ast.Node{
			ast.Assign{Name: acc, Value: ast.ArrayLit{}}, ast.Assign{Name: hs, Value: ast.ArrayLit{}},
			ast.For{Vars: []string{"hh"}, Iters: []ast.Node{call(gn, name("v"))}, Body: ast.Block{Stmts: body}},
			ast.ArrayLit{Elems: []ast.Node{name(acc), name(hs)}}}})
		stmts = append(stmts, ast.Assign{Name: cons, Value: cf}, ast.Assign{Name: res, Value: call(cons, h.lit())})
		stmts = append(stmts, h.junk()...)
		// res is [acc, hs] or a single closure
		single := h.fresh("ze")
		stmts = append(stmts, ast.Assign{Name: single, Value: call("zsel", name(res), ast.BoolLit{V: false})})
		for j := r.Range(2, 4); j > 0; j-- {
			stmts = append(stmts, ast.Assign{Name: h.fresh("zv"), Value: call(single)})
			stmts = append(stmts, h.junk()...)
		}
		last := h.fresh("ze")
		stmts = append(stmts, ast.Assign{Name: last, Value: call("zsel", name(res), ast.BoolLit{V: true})})
		stmts = append(stmts, ast.Assign{Name: h.fresh("zv"), Value: call(last)})
	}
	if oneBlock {
		body := append([]ast.Node{}, stmts[nPrelude:]...)
		stmts = append(stmts[:nPrelude:nPrelude], ast.Block{Stmts: body})
	}
	return stmts
}
