// Package val is the harness's own value type and the documented value
// algebra (DESIGN.md Appendix A), written from the README tables. It shares
// no code with calc. Used by the reference semantics and by the C11 model.
package val

import (
	"math"
	"strconv"
	"strings"
)

type Kind int

const (
	Nil Kind = iota
	Int
	Float
	Bool
	Str
	Arr
	Fun
)

func (k Kind) String() string {
	return [...]string{"nil", "int", "float", "bool", "str", "arr", "fun"}[k]
}

// Value is immutable by convention: every operation allocates.
type Value struct {
	K  Kind
	I  int64
	F  float64
	B  bool
	S  string
	A  []Value
	Fn any // *rs.Closure for reference-semantics functions; opaque here
}

var NilV = Value{K: Nil}

func IntV(i int64) Value     { return Value{K: Int, I: i} }
func FloatV(f float64) Value { return Value{K: Float, F: f} }
func BoolV(b bool) Value     { return Value{K: Bool, B: b} }
func StrV(s string) Value    { return Value{K: Str, S: s} }
func ArrV(a []Value) Value {
	if a == nil {
		a = []Value{}
	}
	return Value{K: Arr, A: a}
}
func FunV(fn any) Value { return Value{K: Fun, Fn: fn} }

// Error classes of the language.
const (
	ENone       = ""
	ENil        = "nil"
	EType       = "type"
	EZeroDiv    = "zerodiv"
	EIndex      = "index"
	EArity      = "arity"
	EConversion = "conversion"
	ERead       = "read"
)

// Outcome of applying an operator in the model.
type Outcome struct {
	V    Value
	Err  string // exact error class, when Kind == OErr
	Kind OKind
	Why  string // for the unspecified outcomes: which rule is silent
}

type OKind int

const (
	OVal      OKind = iota // exactly V
	OErr                   // exactly Err
	OAnyErr                // some documented error (nil operand)
	OIntOrErr              // unspecified: any int or any documented error
	OUnspec                // unspecified: anything but a crash
)

func ok(v Value) Outcome        { return Outcome{Kind: OVal, V: v} }
func fail(e string) Outcome     { return Outcome{Kind: OErr, Err: e} }
func anyErr(why string) Outcome { return Outcome{Kind: OAnyErr, Why: why} }

// Render is the text write() prints and toa() returns.
func Render(v Value) string {
	switch v.K {
	case Nil:
		return "nil"
	case Int:
		return strconv.FormatInt(v.I, 10)
	case Float:
		return FormatFloat(v.F)
	case Bool:
		if v.B {
			return "true"
		}
		return "false"
	case Str:
		return v.S
	case Fun:
		return "function"
	case Arr:
		var sb strings.Builder
		sb.WriteByte('[')
		for i, e := range v.A {
			if i > 0 {
				sb.WriteString(", ")
			}
			sb.WriteString(Render(e))
		}
		sb.WriteByte(']')
		return sb.String()
	}
	return "?"
}

// FormatFloat is Go's %v for float64 (= %g with the shortest round-trip
// precision). The README does not define float rendering; this is an assumption
// listed in the evidence.
func FormatFloat(f float64) string { return strconv.FormatFloat(f, 'g', -1, 64) }

// Display is how the REPL shows a result: strings quoted.
func Display(v Value) string {
	if v.K == Str {
		return "\"" + v.S + "\""
	}
	return Render(v)
}

func isNum(v Value) bool { return v.K == Int || v.K == Float }

func toF(v Value) float64 {
	if v.K == Int {
		return float64(v.I)
	}
	return v.F
}

func typeOrNil(a, b Value) Outcome {
	if a.K == Nil || b.K == Nil {
		if a.K == Nil && b.K == Nil {
			return anyErr("both operands nil")
		}
		return anyErr("nil operand")
	}
	return fail(EType)
}

// Binary applies a binary operator of the language.
func Binary(op string, a, b Value) Outcome {
	switch op {
	case "+", "-", "*", "/":
		if a.K == Int && b.K == Int {
			switch op {
			case "+":
				return ok(IntV(a.I + b.I))
			case "-":
				return ok(IntV(a.I - b.I))
			case "*":
				return ok(IntV(a.I * b.I))
			default:
				if b.I == 0 {
					return fail(EZeroDiv)
				}
				if a.I == math.MinInt64 && b.I == -1 {
					return ok(IntV(math.MinInt64)) // two's complement wrap
				}
				return ok(IntV(a.I / b.I))
			}
		}
		if isNum(a) && isNum(b) {
			x, y := toF(a), toF(b)
			switch op {
			case "+":
				return ok(FloatV(x + y))
			case "-":
				return ok(FloatV(x - y))
			case "*":
				return ok(FloatV(x * y))
			default:
				return ok(FloatV(x / y))
			}
		}
		if op == "+" && a.K == Str && b.K == Str {
			return ok(StrV(a.S + b.S))
		}
		if op == "+" && a.K == Arr && b.K == Arr {
			r := make([]Value, 0, len(a.A)+len(b.A))
			r = append(r, a.A...)
			r = append(r, b.A...)
			return ok(ArrV(r))
		}
		return typeOrNil(a, b)
	case "%":
		if a.K == Int && b.K == Int {
			if b.I == 0 {
				return fail(EZeroDiv)
			}
			if b.I == -1 {
				return ok(IntV(0))
			}
			return ok(IntV(a.I % b.I))
		}
		return typeOrNil(a, b)
	case "&", "&&", "|", "||":
		and := op[0] == '&'
		if a.K == Int && b.K == Int {
			if and {
				return ok(IntV(a.I & b.I))
			}
			return ok(IntV(a.I | b.I))
		}
		if a.K == Bool && b.K == Bool {
			if and {
				return ok(BoolV(a.B && b.B))
			}
			return ok(BoolV(a.B || b.B))
		}
		return typeOrNil(a, b)
	case "<", ">", "<=", ">=":
		if a.K == Int && b.K == Int {
			switch op {
			case "<":
				return ok(BoolV(a.I < b.I))
			case ">":
				return ok(BoolV(a.I > b.I))
			case "<=":
				return ok(BoolV(a.I <= b.I))
			default:
				return ok(BoolV(a.I >= b.I))
			}
		}
		if isNum(a) && isNum(b) {
			x, y := toF(a), toF(b)
			switch op {
			case "<":
				return ok(BoolV(x < y))
			case ">":
				return ok(BoolV(x > y))
			case "<=":
				return ok(BoolV(x <= y))
			default:
				return ok(BoolV(x >= y))
			}
		}
		return typeOrNil(a, b)
	case "==", "!=":
		if a.K == Nil || b.K == Nil {
			return anyErr("nil operand")
		}
		eq, spec := Equal(a, b)
		if !spec {
			return Outcome{Kind: OUnspec, Why: "nil nested inside compared arrays"}
		}
		if op == "!=" {
			eq = !eq
		}
		return ok(BoolV(eq))
	case "<<", ">>":
		if a.K == Int && b.K == Int {
			if b.I < 0 || b.I > 63 {
				return Outcome{Kind: OIntOrErr, Why: "shift count outside 0..63"}
			}
			if op == "<<" {
				return ok(IntV(int64(uint64(a.I) << uint(b.I))))
			}
			if a.I < 0 {
				return Outcome{Kind: OIntOrErr, Why: ">> of a negative int"}
			}
			return ok(IntV(a.I >> uint(b.I)))
		}
		return typeOrNil(a, b)
	}
	panic("val.Binary: unknown operator " + op)
}

// Equal is the language's == on non-nil top-level operands. specified is
// false when a nil is met inside arrays (the README does not say).
func Equal(a, b Value) (eq bool, specified bool) {
	if a.K == Nil || b.K == Nil {
		return false, false
	}
	if isNum(a) && isNum(b) {
		if a.K == Int && b.K == Int {
			return a.I == b.I, true
		}
		return toF(a) == toF(b), true
	}
	if a.K != b.K {
		return false, true
	}
	switch a.K {
	case Bool:
		return a.B == b.B, true
	case Str:
		return a.S == b.S, true
	case Fun:
		return false, true
	case Arr:
		if len(a.A) != len(b.A) {
			return false, true
		}
		for i := range a.A {
			e, s := Equal(a.A[i], b.A[i])
			if !s {
				return false, false
			}
			if !e {
				return false, true
			}
		}
		return true, true
	}
	return false, true
}

// Unary applies a unary operator.
func Unary(op string, a Value) Outcome {
	if a.K == Nil {
		return anyErr("nil operand")
	}
	switch op {
	case "-":
		switch a.K {
		case Int:
			return ok(IntV(-1 * a.I))
		case Float:
			return ok(FloatV(-1 * a.F))
		}
		return fail(EType)
	case "#":
		switch a.K {
		case Str:
			return ok(IntV(int64(len(a.S))))
		case Arr:
			return ok(IntV(int64(len(a.A))))
		}
		return fail(EType)
	case "!":
		if a.K == Bool {
			return ok(BoolV(!a.B))
		}
		return fail(EType)
	case "~":
		if a.K == Int {
			return ok(IntV(^a.I))
		}
		return fail(EType)
	}
	panic("val.Unary: unknown operator " + op)
}

func indexFaults(s Value, idx ...Value) (Outcome, bool) {
	faults := 0
	var first Outcome
	if s.K != Str && s.K != Arr {
		faults++
		if s.K == Nil {
			first = anyErr("nil container")
		} else {
			first = fail(EType)
		}
	}
	for _, i := range idx {
		if i.K != Int {
			faults++
			var o Outcome
			if i.K == Nil {
				o = anyErr("nil index")
			} else {
				o = fail(EType)
			}
			if faults == 1 {
				first = o
			}
		}
	}
	if faults == 0 {
		return Outcome{}, false
	}
	if faults > 1 {
		return anyErr("several faulty operands: which error is reported is not documented"), true
	}
	return first, true
}

func isASCII(s string) bool {
	for i := 0; i < len(s); i++ {
		if s[i] >= 0x80 {
			return false
		}
	}
	return true
}

// IndexAt is s[i].
func IndexAt(s, i Value) Outcome {
	if o, bad := indexFaults(s, i); bad {
		return o
	}
	n := int64(len(s.A))
	if s.K == Str {
		n = int64(len(s.S))
	}
	if i.I < 0 || i.I >= n {
		return fail(EIndex)
	}
	if s.K == Str {
		if s.S[i.I] >= 0x80 {
			return Outcome{Kind: OUnspec, Why: "indexing a non-ASCII byte of a string"}
		}
		return ok(StrV(s.S[i.I : i.I+1]))
	}
	return ok(s.A[i.I])
}

// Slice is s[i:j].
func Slice(s, i, j Value) Outcome {
	if o, bad := indexFaults(s, i, j); bad {
		return o
	}
	n := int64(len(s.A))
	if s.K == Str {
		n = int64(len(s.S))
	}
	if i.I < 0 || i.I > n || j.I < i.I || j.I > n {
		return fail(EIndex)
	}
	if s.K == Str {
		return ok(StrV(s.S[i.I:j.I]))
	}
	r := make([]Value, j.I-i.I)
	copy(r, s.A[i.I:j.I])
	return ok(ArrV(r))
}

// Same is structural identity used by comparators: ints and floats are
// different, floats compare by bits except that every NaN is the same NaN,
// functions are all alike.
func Same(a, b Value) bool {
	if a.K != b.K {
		return false
	}
	switch a.K {
	case Int:
		return a.I == b.I
	case Float:
		if math.IsNaN(a.F) && math.IsNaN(b.F) {
			return true
		}
		return math.Float64bits(a.F) == math.Float64bits(b.F)
	case Bool:
		return a.B == b.B
	case Str:
		return a.S == b.S
	case Arr:
		if len(a.A) != len(b.A) {
			return false
		}
		for i := range a.A {
			if !Same(a.A[i], b.A[i]) {
				return false
			}
		}
	}
	return true
}

// Debug renders a value unambiguously (type-tagged) for reports.
func Debug(v Value) string {
	switch v.K {
	case Int:
		return "int:" + strconv.FormatInt(v.I, 10)
	case Float:
		if math.IsNaN(v.F) {
			return "float:NaN" // every NaN is the same NaN (sign and payload are not observable in the language)
		}
		return "float:" + FormatFloat(v.F) + "/0x" + strconv.FormatUint(math.Float64bits(v.F), 16)
	case Str:
		return "str:" + strconv.Quote(v.S)
	case Arr:
		var sb strings.Builder
		sb.WriteString("[")
		for i, e := range v.A {
			if i > 0 {
				sb.WriteString(", ")
			}
			sb.WriteString(Debug(e))
		}
		sb.WriteString("]")
		return sb.String()
	}
	return Render(v)
}
