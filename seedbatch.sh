#!/bin/bash
# seedbatch.sh <outdir> <mutant-dir>...   runs seedtest.sh for each mutant, one result file each
HERE="$(cd "$(dirname "$0")" && pwd)"
OUT="$1"; shift
mkdir -p "$OUT"
for m in "$@"; do
  name="$(basename $(dirname "$m"))_$(basename "$m")"
  "$HERE/seedtest.sh" "$m" > "$OUT/$name.txt" 2>&1
done
echo batch done
