#!/bin/bash
# seedown.sh <outdir> <root>   for every <root>/Cxx/mK: seedtest against the mutant's own property (and a few neighbours)
HERE="$(cd "$(dirname "$0")" && pwd)"
OUT="$1"; ROOT="$2"; mkdir -p "$OUT"
for m in "$ROOT"/C*/m*; do
  [ -f "$m/patch.diff" ] || continue
  p=$(basename $(dirname "$m"))
  name="${p}_$(basename $m)"
  "$HERE/seedtest.sh" "$m" $p > "$OUT/$name.txt" 2>&1
done
echo done
