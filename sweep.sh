#!/bin/bash
# sweep.sh <tier> <seed>...   runs every registered check at the given seeds; prints one line per (property, seed)
HERE="$(cd "$(dirname "$0")" && pwd)"; cd "$HERE"
TIER="$1"; shift
export VERIF_OUT="${VERIF_OUT:-/tmp/sweepout.$$}"; mkdir -p "$VERIF_OUT"
for s in "$@"; do
  for p in C01 C02 C03 C04 C05 C06 C07 C08 C09 C10 C11 C12 C13 C14 C15 C16 C17 C18 C19; do
    start=$(date +%s)
    out=$(VERIF_SEED=$s ./check $p $TIER 2>&1); rc=$?
    echo "seed=$s $p rc=$rc $(( $(date +%s) - start ))s | $(echo "$out" | grep -E "^$p |CHECK-BROKEN|violations by" | tr '\n' ' ' | cut -c1-330)"
    if [ $rc -ne 0 ]; then echo "$out" | grep -A2 "^VIOLATION" | head -12; fi
  done
done
rm -rf "$VERIF_OUT"
