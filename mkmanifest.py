#!/usr/bin/env python3
"""Regenerates MANIFEST.json from the table below (kept in one place so the file is always valid)."""
import json, subprocess

HOOK_COMMITS = subprocess.run(["git","-C","/repo","log","--format=%h %s","--grep=^verif hooks"],capture_output=True,text=True).stdout.strip().splitlines()

CLAIMED = {
 "C11": dict(
   technique="runtime monitoring: reference-model monitor + algebraic-law monitor over exhaustive pool sweep and seeded random operand tuples",
   text="Every operator method of the real value package is executed on every ordered pair of a boundary-value pool (exhaustive) and on seeded random tuples; each result is compared with an independent model of the README tables and with reference-free algebraic laws (symmetry, negation, relational consistency, slice/concat length laws). The same pool pairs are also run through compiled programs (operands injected as globals) in the plain opcode form and in the temp-register form of every operator, and with one or both operands written as literals (constant operands, folding) and as update statements on a global and on a local (v = v op k, v = k op v, the shapes the compiler has shortcuts for) with the variable read back. Held-on-what-was-observed; the pool sweeps are complete, the random part is a sample.",
   note="Trusts the harness model (harness/val) as the statement of the README tables; unspecified cells only demand 'documented error or right-shaped value, no crash'. Go's IEEE-754 float semantics trusted.",
   design="6/C11"),
 "C01": dict(
   technique="runtime monitoring: differential reference-model monitor (independent tree-walking reference semantics vs the real parser/compiler/VM) over generated and directed sessions, both compile modes, plain/tight/pregrown allocation",
   text="Typed-generator sessions (closures, recursion, generators, every operator and operand source, planted faults of every class incl. non-boolean conditions around bodies of every weight, loops in tail position whose bodies end in compound statements, loop conditions routed through a writing identity function, helpers bound to built-in names, int and equal float literals side by side, slices beyond a prefix of a longer array, aton of rendered numbers followed by a line break or padded with blanks) and directed corpus sessions are executed statement by statement by an independent reference interpreter and by the real pipeline in REPL and script mode; value tree, output bytes and error class must agree. Evidence lists executed instruction shapes and compile-context classes.",
   note="Trusts harness/rs as the executable README; programs relying on behaviour the README leaves open are detected by the reference and dropped (counted).",
   design="6/C01"),
 "C02": dict(
   technique="runtime monitoring: trace-specification checker over recorded yield/resume/body event logs of instrumented generator pipelines (reference-free laws + list model) + differential reference-model monitor, four allocation stress modes",
   text="Generator pipelines (leaf, map, filter, chain, take, nest, relay, zip) written in calc with every yield bracketed by trace writes are consumed by loops at top level, in functions, at recursion depth, after other (composed) loops of the same statement and with early returns; the event log must satisfy the suspension-stack, body-after-yield, resume-after-body, exactly-once and abandon laws and match a list model. The same pipelines untraced (also with directly nested consumers), generator-heavy typed sessions and a yield-operand family (global/captured/local/parameter/constant/expression operands with bodies that reassign them and generators that recurse 0..180 deep between their yields, and generators that read a global again right after the body assigned it) are compared with the reference semantics; so are sessions in which generators yield closures (directly or from a call below the defining frame) that the consumer keeps, calls, returns out of the loop and calls again after the context was recycled, and the C03 depth sweep (loops running d frames below live loops).",
   note="Trace laws need no model of calc; the list model of constant-leaf pipelines and harness/rs are trusted for the value sequences.",
   design="6/C02"),
 "C03": dict(
   technique="runtime monitoring: metamorphic history monitor (one pure call evaluated in 13 dynamic contexts of one session, interleaved with noise, under plain/tight/pregrown allocation) + differential reference-model monitor",
   text="Within one session a side-effect-free function (random typed; closure around a deep call; closure around a 129..300-local call; wide frame with a loop over its last local; closure generator read after every resume; three-way zip; loops calling returned closures; function literals written in a for iterator expression that escape the loop before another function recycles the context; a closure routed through other functions while its defining call is live; closures that leave their call through yield; a loop tail that may run zero times; a loop whose iterator expressions read locals from every part of a small frame) is called with equal arguments as first statement, at recursion depths 1..4/10/130/1000 and two random depths in 100..420, in while/for bodies, inside a generator, twice in one array literal, after a failed statement, after the stack grew by up to 4000 frames, after contexts were recycled, after an early return out of a zipped loop in the same statement, after a failing call chain that defined a closure on every level, after an abandoned closure generator, after a narrow function's loop in the same statement; every statement of the session is also compared with the reference; all renderings must equal the first and the reference. A second family sweeps a function that reads a never-assigned local (must be nil) over 45 consecutive call depths after dirtying the slots below. A third (depths) calls a loop-running function from the body of a live zipped/nested loop through d plain frames, d sweeping 0..1000, the neighbourhoods of 2^8, 2^9, 2^15, 2^16 and 2^17, and runs a zipped loop on every recursion level up to 600 levels: the value must not depend on d and must be the one computed from the program constants.",
   note="Purity of the generated function is by construction (no write/read); noise statements use disjoint global names.",
   design="6/C03"),
 "C04": dict(
   technique="runtime monitoring: differential reference-model monitor + globals-frame monitor (complete global frame compared after every statement) + caller-frame self-checks executed by the program under test",
   text="Name-pressure sessions reuse 2..5 names as global/parameter/local/for-variable/captured/inner local across three nesting levels; each function snapshots every visible name before and after each call it makes (any difference prints a DIFF marker), updates captured variables between calls, and lets closures escape directly, in arrays and in arrays of arrays, which are then called after deep recursion overwrote the dead frames; loop bounds are computed from the outer variable that has the loop variable's name; closure-plumbing sessions (hof family) define sibling closures in one call, route them through other functions (returned unchanged, picked, wrapped in a capturing closure, yielded by a generator and returned out of the consuming loop) while the defining call is live and its variables change, let them escape, and call them again after other calls, deep recursion and recycled iterator contexts; parameter lists that repeat a name (every parameter keeps its own slot, the name denotes the later one) followed by locals, closures and loops, and parameters, locals and loop variables spelled like built-in functions and called; generators that are closures and run loops of their own whose iterator expressions read captured variables, consumed at call depth 0..4 below callers that hold captured variables of their own (genclosures family); all observations are compared with the reference and the whole global frame is compared after every statement.",
   note="Names are declared before any loop of a function body so static and dynamic lookup cannot differ (agreed region rule 1).",
   design="6/C04"),
 "C05": dict(
   technique="runtime monitoring: universal no-abort monitor (panic/fatal/step-limit/undocumented-error oracle) over hostile parseable programs in child processes, both compile modes",
   text="Grammar-random ill-typed programs, an enumerated hostile-value x operator/statement-position matrix, token mutations of corpus programs, fault-planted typed sessions, generator pipelines with lambdas in iterator expressions / recycled contexts / 130..300-local consumers, parameter lists repeating a name, every reserved word in every position where a name can stand (whatever the parser lets through must run), texts outside the documented grammar that the parser may let through (run raw), two-bound slices, and hostile scripts through the real cmd/calc binary; in REPL and script compile mode inside child workers. Any panic, Go fatal (worker death), non-zero exit, undocumented error class, or step-limit hit where the reference interpreter terminates is a violation. Thorough tier replays under -race (checkptr) and -asan workers.",
   note="Ill-typed programs that loop forever have no reference verdict and are counted inconclusive/diverged; programs building values above 10^6 elements are dropped before the VM; exit() is never called.",
   design="6/C05"),
 "C09": dict(
   technique="runtime monitoring: invariant assertion at statement boundaries on hooked machine state (residue) + N-scaling monitor on hooked max stack pointer / live contexts at loop back-edges",
   text="After every statement of typed and directed sessions (both compile modes) the hooked (sp, frame, closure, live-context) counts must equal their values before it (all zero after a failure). Loop programs of six loop kinds x nine body tails are run with 3/30/300 iterations; the max stack pointer per memory kind and max live contexts at back-edges must be identical. Loop bodies include guard trees (if / if-else nests of never-taken returns), zipped loops with an iterator expression that makes no call (zero iterations), and generator functions called directly; corpus sessions cover yields without a consumer (also computed operands at top level) and call-free iterator expressions; a flags family feeds typed sessions to the input loop with the -ast / -bytecode display options on and reads the same counts after every input.",
   note="Relies on the verif accessors for sp/fp/closure/context counts and the step hook's per-memory maxima.",
   design="6/C09"),
 "C10": dict(
   technique="runtime monitoring: shadow-copy invariant monitor (every value ever produced is deep-copied and re-compared after every operation) over value-package operation histories + globals-frame differential on structure-sharing sessions",
   text="Histories of concatenations, slices, element reads and NewArray over existing values run on the real value package with up to 64 live values re-read after every operation against their deep copies and a model; array/string sessions that share structure (slices of slices, concat onto slices with spare capacity, partially constant literals, literal-returning functions, recursion on slices, generator prefixes, closures holding slices) have their whole global frame compared with the reference after every statement; closure-plumbing sessions (arrays/strings captured by sibling closures and by closures a generator yields, routed through other functions and called again after other calls, deep recursion and recycled iterator contexts) are compared the same way; the value-package histories hold nil, float and int elements side by side, strings long enough to reach 32..200 bytes extended more than once, and include == / != between live values; the sessions also extend one long concatenation result twice and append one-element literals with a computed element to slices and call results, and hand literals built by the VM (never stored in a variable: written in the call, returned by a call, fetched out of an enclosing literal) to a function that extends its parameter twice and keeps both results.",
   note="ARR (array literal building) is reached only through programs; shadow copies use the harness value type.",
   design="6/C10"),
 "C08": dict(
   technique="runtime monitoring: twin-run monitor (failure session vs a session that re-creates the completed globals by literal assignments) + residue assertion on hooked state after each failure + differential reference-model monitor",
   text="Sessions prefix·F·suffix with F a parse error or one of the seven runtime error classes (index errors from one- and two-bound accesses) raised at top level, at call depth up to 200, in loop bodies, in (nested) generators after the k-th yield, in closures, or several in a row are compared statement-by-statement with a twin that never saw F but holds the same globals, and with the reference (a suffix statement that fails must also list the same calls in its error report as in the twin: one of the called functions is bound inside the failing statement); the hooked machine state must be clean after every failure and unchanged by a parse error; handed to the REPL/file loop's processInput as multi-statement inputs (greedy grouping that provably parses into the same statements) the failing part and the suffix must print and leave exactly what they do one statement per input.",
   note="Completed globals are literal-printable by construction; helper definitions inside F are replayed verbatim in the twin.",
   design="6/C08"),
 "C12": dict(
   technique="runtime monitoring: metamorphic placement monitor (one expression in ~35 code-generation contexts, rewrite equivalences, enumerated non-boolean conditions) with the reference semantics as tie-breaker",
   text="Typed expressions are embedded in used/discarded/tail/return/argument/array/if/while/for/yield/top-level-return/operand-depth placements, each run on a fresh interpreter and compared (value where observable, output, error class) with the reference answer for the plain expression; x=x+1 vs x=1+x vs t=x;x=t+1, e op e vs t=e;t op t, negated if/while are cross-compared in both modes; every non-boolean condition in 24 statement placements must be a type error that runs no body; comparisons of 14 operands with a boolean literal written as the whole condition of if / if-else / while must pick the branch the reference picks, without error. One placement runs the expression inside a function whose parameters carry its variables, right after an assignment to its leftmost variable that sits in an if skipped at run time. Further expressions: two operands that are the same tree with an effectful call, operands that look alike on paper (2 / 2.0 / \"2\", a variable and the string spelling its name), a negated comparison with a NaN operand; for strings and arrays also placements beside non-identity literals (\"<\" + e, [71] + e + [72]) whose expected value is computed from the plain value; rewrites include the non-commuting mirror forms (x = 1 - x vs t = x; x = 1 - t).",
   note="Expressions the reference finds ambiguous or nil-valued are dropped.",
   design="6/C12"),
 "C15": dict(
   technique="runtime monitoring: exhaustive round-trip assertion over the operand-field space + OR-composition and function-layout sweeps (+ limit-crossing sessions)",
   text="The real EncodeSrc/New/decoders are executed on every slot x kind x address in -70000..70000 (complete), every opcode with composed operands, and the function-value layout lattice; each accepted encode must decode to exactly its inputs with all other fields zero, the only alternative being a refusal. Sessions crossing 2^15 data-segment entries, function bodies of 3000..33000 statements (jump distance) and functions with 300..70000 parameters/arguments must print exactly what they compute or be refused with a reported compiler error that leaves both segments unchanged; a call with a wrapped-around argument count must end in refusal or an arity error. A longcode family grows the code segment to chosen sizes (0, every small offset across the reallocation points, around 2^15 and 2^16, 100 000 instructions) with straight-line padding functions and then defines and calls small functions of every control-flow shape, which must simply work and print what the reference says (under a step limit).",
   note="A panic of EncodeSrc counts as refusal at API level. Session-level limit crossing is covered by the history family once the session runner applies.",
   design="6/C15"),
 "C14": dict(
   technique="runtime monitoring: trace-law checker over the real lexer's token stream + reference scanner + metamorphic relayout",
   text="The real lexer is run on seeded alphabet-weighted strings, corpus programs and mutations; every accepted stream is checked against the span/text/gap/longest-run/EOL/terminator laws, a reference scanner written from the README token table, and a relaid-out variant of the same text. Rejected inputs are checked too: a text the README token table allows (no NUL, no over-long number) must not be rejected. A long family runs the same laws on inputs of 64..160 KiB.",
   note="String token text compared modulo the pinned \\n expansion; lexer hangs/aborts are C06's subject and are counted inconclusive here.",
   design="6/C14"),
 "C06": dict(
   technique="runtime monitoring: invariant hooks (lexer/TLexer progress bounds), span and error-display assertions, state-unchanged assertion around processInput",
   text="parser.Parse is run on prefixes of all corpus programs, random bytes, token soup, mutations, nesting to depth 5000 (16 shapes, among them blocks whose nested construct is not their first statement) and 10^5-character literals under logical progress bounds; panics, bound trips, out-of-input spans, failing error displays and any execution of an erroneous input (through processInput in-process and through `calc -eval` on the real binary) are violations.",
   note="Termination is decided as bounded progress (>=100x slack over measured maxima, reported in the evidence); nesting deeper than 5000 is out of reach (Go stack).",
   design="6/C06"),
 "C13": dict(
   technique="runtime monitoring: model-conformance monitor over TLexer operation histories + ordered-choice recogniser monitor over random combinator expressions",
   text="Random Next/Snapshot/Rollback/Commit histories (5..120 ops on short texts, 500..3000 ops on streams of 300..900 tokens) on the real TLexer are compared observer-by-observer with a fresh plain scan after every op; random expressions over all 13 combinators run on the real TLexer are compared with a pure position-passing recogniser (accept/reject, nodes, end position read through From(), following token, snapshot balance), on short streams and on streams of 280..700 tokens entered beyond token 250.",
   note="Generator keeps to the grammar's side conditions (Choose ends in an Ok gate, Not only under Assert, loops consume). Committed-choice semantics taken from the package documentation.",
   design="6/C13"),
 "C07": dict(
   technique="runtime monitoring: round-trip oracle (independent grammar printer -> real parser -> structural tree equality) over enumerated small trees and seeded random trees x layout variants",
   text="Every tree of an enumerated operator-pair / statement-position set and seeded random trees to depth 8 are written as source text by an independent printer of the documented grammar (minimal parentheses) in a canonical and 4 random layouts; the real parser must return exactly that tree for each text.",
   note="The printer is trusted as the statement of the README grammar; only trees the grammar can denote are generated.",
   design="6/C07"),
 "C18": dict(
   technique="runtime monitoring: model-conformance monitor over VM-legal memory operation histories in plain and tight-allocator (every growth moves the array) modes, unique written values",
   text="VM-legal histories (calls with frame widths crossing 128/256, returns, local writes, frame-header aliases, globals, Clone with and without recycled targets on up to 9 interleaved memories, resets) run on the real memory.Type; after every op every observer of every live memory and alias is compared with a model where each activation is an independent record; plain and tight allocation. Language level: name-pressure sessions (incl. zipped loops over existing and new locals), wide-frame/closure functions called at recursion depths 0..300 with locals written around the call, and recursion 10^4..3x10^4 deep, against the reference under plain/tight/pregrown allocation; the depth sweep of C03 (loops d frames below live loops, d up to 2^17+1) runs here too.",
   note="Histories are limited to what the VM can issue. Tight mode relies on the verif hook trimming a freshly grown stack (append may move at any growth). Language-level reach of the same property comes from C03/C04 sessions.",
   design="6/C18"),
 "C16": dict(
   technique="runtime monitoring: cross-process metamorphic monitor over the freshly built cmd/calc in -eval, piped-REPL and file mode, byte-exact against per-mode expectations derived from the reference, plus in-process statement-by-statement comparison",
   text="Scripts mixing one-line and multi-line statements, strings and comments full of braces/brackets/quotes/semicolons/line breaks, string literals with backslashes (also as the last character of a line of a multi-line string, the next line starting with the closing quote or another backslash), blank and comment-only lines, random layout, with and without final newline run through the real binary in file mode, piped into the REPL and (first statement / self-contained blocks) through -eval; stdout of each mode must equal byte for byte what the reference semantics says that mode prints, file mode must equal entering the statements one by one in-process, exit status 0.",
   note="Scripts avoid runtime errors (reports contain pointers) and carriage returns. REPL string quoting is treated as the documented presentation difference.",
   design="6/C16"),
 "C17": dict(
   technique="runtime monitoring: contract monitors on injected values (render/round-trip laws evaluated by the program under test), list-model monitor for generator built-ins, enumerated misuse matrix, read() line-sequence monitor in-process and over real processes (pipe, file, FIFO, strace-injected EIO)",
   text="Random and boundary ints/floats/strings (incl. format verbs)/nested arrays injected as globals: write(x) == write(toa(x)) == toa(x) == reference rendering and aton(toa(n)) == n, several renderings kept alive in one expression and across statements must stay what they were, the rendering followed by a line break or padded with a blank must be a conversion error; fromto/elems/indices collected by loops against plain lists; every built-in with 0..3 arguments of 9 kinds must fail exactly when its contract says so; successive read() calls must return successive lines then a read error, in-process and with the real binary reading a pipe, a file, a chunk-fed FIFO and a file with an injected EIO; lines may be empty, end in CR or exceed 64 KiB; an exit family checks that what a statement wrote before exit(k) is on standard output and the status is k; generator built-ins also run with mixed int/float bounds.",
   note="Float rendering = Go shortest round-trip formatting; input always ends with a newline; after an injected EIO only 'reported, process alive, script continues' is demanded.",
   design="6/C17"),
 "C19": dict(
   technique="runtime monitoring: trace-specification checker over the recorded error report (parsed) against the reference semantics' call/coroutine trace and the step hook's last dispatched instruction",
   text="Failing statements of every error class at call depth up to 200, in loops, (nested) generators, pipeline stage functions, closures, function-valued parameters and built-ins, calls whose parameters and operands hold awkward values (arrays of 8..12 elements starting with empty strings, format verbs, renderings around the 20 character abbreviation limit; also as the variable of a failing in-place increment or decrement, local or global), callees named through captured variables, failures inside recycled iterator contexts, calls inside while conditions failing at the loop-back test, multi-byte values, absent operands under every binary operator (plain and temp-register forms), one session in twenty with a compiler-refused statement in the middle (it starts with calls whose call sites are recorded before the refusal), each session ending in two more failing statements; the printed report is parsed and checked: header class, marked instruction equals the hook's last dispatched instruction and belongs to the failing operation's opcode family, every listed line shows the word that is at that address and its independent disassembly, listed operands are an ordered subset of the operands the operation saw, one context block per active coroutine with call-site names, argument counts and current argument values innermost first; never 'giving up', never a panic.",
   note="Operand-list completeness is not demanded; values are compared in the report's own 20-character abbreviation; a nil operand may be reported by the MOV that loads it.",
   design="6/C19"),
}

ALL = ["C%02d" % i for i in range(1, 20)]
checks = []
for pid in ALL:
    if pid not in CLAIMED: continue
    c = CLAIMED[pid]
    checks.append({
        "property_id": pid,
        "quick_cmd": "./check %s quick" % pid,
        "thorough_cmd": "./check %s thorough" % pid,
        "evidence_file": "/verif/evidence/%s.json" % pid,
        "replay_cmd_template": "./check %s --replay {path}" % pid,
        "engine": "vcheck",
        "level_claimed": {"category": c.get("category", "exploration"), "text": c["text"], "design_ref": "DESIGN.md section " + c["design"]},
        "level_note": c["note"],
        "technique": c["technique"],
    })
na = [{"property_id": p, "reason": "check not built yet in this round (planned: see DESIGN.md section 6); not claimed until its monitor is silent on the unchanged tree"} for p in ALL if p not in CLAIMED]
m = {
 "version": 1,
 "setup_cmd": "./setup.sh",
 "hooks": {
   "guard": "verif (Go build tag)",
   "enable": "go build -tags verif (harness module replaces github.com/paulsonkoly/calc by /repo)",
   "baseline_off_cmd": "cd /repo && go test -vet=off -count=1 ./...",
   "source_commits": [l.split()[0] for l in HOOK_COMMITS],
   "add_only": True,
 },
 "engines": [{"name": "vcheck", "path": "/verif/harness", "serves_properties": [c["property_id"] for c in checks],
              "kind_free_text": "Go driver + child-process workers linking /repo with -tags verif; reference-model, invariant-hook, trace-law and metamorphic monitors over seeded workloads"}],
 "checks": checks,
 "not_applicable": na,
 "notes": "Every check rebuilds the worker from /repo's working tree. Seeds: VERIF_SEED. Known findings: /verif/known_findings.json.",
}
json.dump(m, open("/verif/MANIFEST.json", "w"), indent=1)
print("claimed:", [c["property_id"] for c in checks])
