#!/bin/bash
# thor.sh <seed> <property>...   thorough check of the listed properties at one seed; one line per property
HERE="$(cd "$(dirname "$0")" && pwd)"; cd "$HERE"
s="$1"; shift
export VERIF_OUT="${VERIF_OUT:-/tmp/thorout.$$}"; mkdir -p "$VERIF_OUT"
for p in "$@"; do
  start=$(date +%s)
  out=$(VERIF_SEED=$s ./check $p thorough 2>&1); rc=$?
  echo "seed=$s $p rc=$rc $(( $(date +%s) - start ))s | $(echo "$out" | grep -E "^$p |CHECK-BROKEN|violations by" | tr '\n' ' ' | cut -c1-330)"
  if [ $rc -ne 0 ]; then echo "$out" | grep -A2 "^VIOLATION" | head -12; fi
done
rm -rf "$VERIF_OUT"
